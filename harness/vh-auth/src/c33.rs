//! C33 — only authorised actors change group membership.
//!
//! Three one-directional checks (DESIGN §1 C33), none of which re-implements the resolver:
//!  (1) `process(op)` returned `Ok` somewhere ⇒ on a *prefix replica* that processed exactly the
//!      causal past of `op` (canonical order) `root_members(group)` lists the author as an
//!      individual with Manage level — or `op` removes its own author and the author is listed —
//!      and the target is in the state the action needs (add: not listed; remove / promote /
//!      demote: listed). A `Create` is judged only by "the group is not there yet".
//!  (2) a call that did not return `Ok` leaves all observable answers, heads and the stored state
//!      of the replica unchanged (evaluated in the generator, see `ProcessEvent`).
//!  (3) provenance: every (group, member) a replica ever reports is reachable through members
//!      introduced by a `Create`/`Add` among the operations that replica accepted.
//! The converse "authorised ⇒ accepted" is not judged. Panics are recorded; they count only when
//! the operation targets a group that exists at its dependencies.

use std::collections::{BTreeMap, BTreeSet};

use p2panda_auth::group::{GroupAction, GroupMember};
use vh_common::{Args, Report, Rng, hash_of, json, quiet_panics};

use crate::generator::*;
use crate::model::*;

enum Prefix<C: Cx> {
    Built(State<C>),
    Failed(String),
}

fn prefix_replica<C: Cx>(h: &History<C>, op: &Op<C>) -> Prefix<C> {
    let mut y = State::<C>::new();
    for i in h.ancestors(op) {
        match process(&y, &h.ops[i]) {
            Outcome::Ok(n) => y = n,
            other => return Prefix::Failed(format!("ancestor {} refused: {}", h.ops[i].id, other.label())),
        }
    }
    Prefix::Built(y)
}

/// Verdict of check (1) for one accepted operation.
enum Verdict {
    Fine,
    Ambiguous,
    Bad(String, String),
}

fn judge_accepted<C: Cx>(op: &Op<C>, y: &State<C>) -> Verdict {
    let kind = action_kind(&op.action);
    if let GroupAction::Create { .. } = &op.action {
        if y.has_group(op.group) {
            return Verdict::Bad(
                "C33:accepted:create-over-existing-group".into(),
                format!(
                    "a Create for group {} by {} was accepted although the group already exists at the operation's dependencies (members there: {:?})",
                    op.group, op.author, root_members(y, op.group)
                ),
            );
        }
        return Verdict::Fine;
    }
    // Ask several times: with conditions a replica's own answer may flip (C31); do not judge then.
    let views: Vec<Vec<Entry>> = (0..6).map(|_| root_members(y, op.group)).collect();
    let author_view = |v: &Vec<Entry>| v.iter().find(|e| !e.0 && e.1 == op.author).map(|e| e.2);
    let a0 = author_view(&views[0]);
    let ids = |v: &Vec<Entry>| v.iter().map(|e| (e.0, e.1)).collect::<BTreeSet<_>>();
    if views.iter().any(|v| author_view(v) != a0 || ids(v) != ids(&views[0])) {
        return Verdict::Ambiguous;
    }
    let listed = &views[0];
    let target = action_target(&op.action).unwrap();
    let target_listed = listed.iter().any(|e| e.0 == target.is_group() && e.1 == target.id());
    let self_remove = matches!(&op.action, GroupAction::Remove { member } if *member == GroupMember::Individual(op.author));
    let author_ok = a0 == Some(3) || (self_remove && a0.is_some());
    if !author_ok {
        let author_state = match a0 {
            None => "not-a-member",
            Some(_) => "member-below-manage",
        };
        return Verdict::Bad(
            format!("C33:accepted:author-{author_state}:{kind}"),
            format!(
                "{kind} of {:?} in group {} by {} was accepted, but in the state at its dependencies {} is {} (listed there: {:?})",
                target, op.group, op.author, op.author,
                if a0.is_none() { "not an active member".to_string() } else { format!("a member with level {} (not Manage)", a0.unwrap()) },
                listed
            ),
        );
    }
    let target_ok = match &op.action {
        GroupAction::Add { .. } => !target_listed,
        _ => target_listed,
    };
    if !target_ok {
        return Verdict::Bad(
            format!("C33:accepted:invalid-target:{kind}"),
            format!(
                "{kind} of {:?} in group {} by manager {} was accepted, but at its dependencies the target is {} (listed there: {:?})",
                target, op.group, op.author,
                if target_listed { "already an active member" } else { "not an active member" },
                listed
            ),
        );
    }
    Verdict::Fine
}

/// Provenance: everything a replica reports must be reachable through introductions it accepted.
fn provenance<C: Cx>(h: &History<C>, a: &Actor<C>) -> Option<String> {
    // intro[g] = members ever introduced into g by an accepted Create / Add.
    let mut intro: BTreeMap<char, BTreeSet<(bool, char)>> = BTreeMap::new();
    for &i in &a.seen {
        let op = &h.ops[i];
        match &op.action {
            GroupAction::Create { initial_members } => {
                let e = intro.entry(op.group).or_default();
                for (m, _) in initial_members {
                    e.insert((m.is_group(), m.id()));
                }
            }
            GroupAction::Add { member, .. } => {
                intro.entry(op.group).or_default().insert((member.is_group(), member.id()));
            }
            _ => {}
        }
    }
    let mut groups = h.groups.clone();
    groups.push(UNKNOWN_GROUP);
    let ans = answers(&a.y, &groups);
    for ((g, q), listed) in &ans.0 {
        // Reachable set from g through introduced sub-groups.
        let mut reach: BTreeSet<(bool, char)> = BTreeSet::new();
        let mut stack = vec![*g];
        let mut visited = BTreeSet::new();
        while let Some(x) = stack.pop() {
            if !visited.insert(x) {
                continue;
            }
            if let Some(ms) = intro.get(&x) {
                for m in ms {
                    reach.insert(*m);
                    if m.0 && *q != Q_ROOT {
                        stack.push(m.1);
                    }
                }
            }
        }
        for e in listed {
            if !reach.contains(&(e.0, e.1)) {
                return Some(format!(
                    "replica {} reports {}{} in {q}({g}) although no Create/Add it accepted introduced that member (introduced: {:?})",
                    a.id, if e.0 { "group " } else { "" }, e.1, intro.get(g)
                ));
            }
        }
    }
    None
}

fn run_case<C: Cx>(args: &Args, case: u64, rep: &mut Report) {
    let mut rng = Rng::fork(args.seed, case);
    let params = Params::random(&mut rng, 0.3, cfg!(miri));
    let h = generate::<C>(&mut rng, params.clone());
    let base = json!({
        "seed": args.seed, "case": case, "conditions": C::NAME, "params": format!("{:?}", params),
        "groups": h.groups.iter().collect::<String>(), "individuals": h.individuals.iter().collect::<String>(),
    });
    let ops_json = |upto: Option<&Op<C>>| {
        // Operations needed to replay: the causal past of `upto`, or the whole history.
        match upto {
            Some(op) => json!(h.ancestors(op).into_iter().map(|i| op_json(&h.ops[i])).collect::<Vec<_>>()),
            None => json!(h.ops.iter().map(op_json).collect::<Vec<_>>()),
        }
    };

    let mut judged: BTreeSet<u32> = BTreeSet::new();
    let mut hostile_rejected_auth = 0u64;
    let mut hostile_accepted = 0u64;
    let mut stale_accepted = 0u64;
    for ev in &h.events {
        rep.bump("process_calls", 1);
        let ok = ev.outcome == "ok";
        if ev.hostile {
            rep.bump(&format!("hostile_{}", if ok { "accepted" } else { "refused" }), 1);
            if !ok {
                rep.bump(&format!("hostile_outcome_{}", ev.outcome.split(' ').next().unwrap_or("")), 1);
            }
            if ok {
                hostile_accepted += 1;
                if ev.stale_deps {
                    stale_accepted += 1;
                }
            } else if ev.outcome.starts_with("err:StateChange") {
                hostile_rejected_auth += 1;
            }
        }
        // (2) unchanged on reject.
        if let Some(unchanged) = ev.unchanged_after_reject {
            rep.bump("reject_unchanged_checks", 1);
            if !unchanged {
                rep.violation(
                    "C33:rejected-op-changed-replica",
                    format!("replica {} refused operation {} ({}) but its answers/heads/stored state differ afterwards", ev.replica, ev.op.id, ev.outcome),
                    json!({"base": base, "op": op_json(&ev.op), "replica": ev.replica.to_string(), "ops": ops_json(None)}),
                );
            }
        }
        // Panics.
        if ev.outcome.starts_with("panic") {
            rep.bump("panics_recorded", 1);
            match prefix_replica(&h, &ev.op) {
                Prefix::Built(y) if y.has_group(ev.op.group) => {
                    rep.violation(
                        &format!("C33:panic:existing-group:{}", action_kind(&ev.op.action)),
                        format!("processing a {} on existing group {} panicked: {}", action_kind(&ev.op.action), ev.op.group, ev.outcome),
                        json!({"base": base, "op": op_json(&ev.op), "causal_past": ops_json(Some(&ev.op)), "outcome": ev.outcome}),
                    );
                }
                Prefix::Built(_) => rep.bump("panics_on_unknown_group_not_judged", 1),
                Prefix::Failed(_) => rep.bump("prefix_replica_failed", 1),
            }
        }
        // (1) accepted ⇒ authorised at its dependencies. Judged once per operation.
        if ok && judged.insert(ev.op.id) {
            match prefix_replica(&h, &ev.op) {
                Prefix::Failed(why) => {
                    rep.bump("prefix_replica_failed", 1);
                    rep.extra("prefix_replica_failure_example", json!(why));
                }
                Prefix::Built(y) => match judge_accepted(&ev.op, &y) {
                    Verdict::Fine => rep.bump("accepted_ops_judged_fine", 1),
                    Verdict::Ambiguous => rep.bump("accepted_ops_ambiguous_prefix_view", 1),
                    Verdict::Bad(sig, what) => {
                        rep.violation(
                            &sig,
                            what,
                            json!({
                                "base": base, "op": op_json(&ev.op), "hostile": ev.hostile, "stale_deps": ev.stale_deps,
                                "accepted_by_replica": ev.replica.to_string(),
                                "causal_past": ops_json(Some(&ev.op)),
                                "prefix_replica_answers": answers_json(&answers(&y, &h.groups)),
                            }),
                        );
                    }
                },
            }
        }
    }
    // Accepted by the author but refused elsewhere: recorded (the converse direction is not judged).
    rep.bump("acceptance_disagreements_recorded", h.disagreements.len() as u64);

    // (3) provenance on every replica at the end of the history.
    for a in &h.actors {
        rep.bump("provenance_checks", 1);
        if let Some(what) = provenance(&h, a) {
            rep.violation(
                "C33:member-without-introduction",
                what,
                json!({"base": base, "replica": a.id.to_string(), "ops": ops_json(None),
                       "seen": a.seen.iter().map(|i| h.ops[*i].id).collect::<Vec<_>>(),
                       "answers": answers_json(&answers(&a.y, &h.groups))}),
            );
        }
    }

    rep.bump("operations_accepted", h.ops.len() as u64);
    if stale_accepted > 0 {
        rep.bump("histories_with_accepted_stale_dependency_op", 1);
    }
    let nontrivial = hostile_rejected_auth > 0 && hostile_accepted > 0;
    if nontrivial {
        let key = hash_of(&serde_json::to_string(&ops_json(None)).unwrap());
        rep.case(Some((C::NAME, key, h.events.len())));
    } else {
        rep.case(None::<()>);
    }
    if rep.want_sample() && nontrivial {
        let hostile: Vec<_> = h
            .events
            .iter()
            .filter(|e| e.hostile)
            .take(8)
            .map(|e| json!({"replica": e.replica.to_string(), "op": op_json(&e.op), "stale_deps": e.stale_deps, "outcome": e.outcome}))
            .collect();
        rep.sample(json!({"base": base, "accepted_operations": h.ops.len(), "process_calls": h.events.len(), "hostile_calls": hostile}));
    }
}

pub fn run(args: &Args) {
    quiet_panics();
    let mut rep = Report::new(
        args,
        "case = one seeded concurrent group history from C31's generator in which 30 % of the steps are hostile: an \
         arbitrary create/add/remove/promote/demote on an arbitrary target by a member, ex-member or stranger, 30 % of \
         them declared on stale dependencies (earlier heads of the author's replica), a few re-using an operation id or \
         naming an unknown group; every process call on every replica is an observation. Non-trivial = the history \
         contains >=1 hostile operation refused with a state-change (authorisation/validity) error and >=1 hostile \
         operation that was accepted; distinct = hash of the accepted operation list. Even cases without conditions, odd \
         cases with u8 conditions.",
        if cfg!(miri) { 1 } else { 40 },
    );
    let n = if cfg!(miri) { 2 } else { args.n(1000, 30000) };
    let trace = std::env::var("VH_TRACE").is_ok();
    let first = args.param_u64("from", 0);
    for case in first..n {
        if trace {
            eprintln!("case {case} t={:.1}s", rep.elapsed().as_secs_f64());
        }
        if case % 2 == 1 {
            run_case::<Cond>(args, case, &mut rep);
        } else {
            run_case::<()>(args, case, &mut rep);
        }
        if rep.elapsed().as_secs() > 40 * 60 {
            rep.inconclusive(format!("time budget reached after {case} of {n} histories"));
            break;
        }
    }
    rep.extra("histories", json!(n));
    rep.finish(args);
}
