//! C33 — only authorised actors change group membership.
//!
//! Three one-directional checks (DESIGN §1 C33), none of which re-implements the resolver:
//!  (1) `process(op)` returned `Ok` somewhere ⇒ on a *prefix replica* that processed exactly the
//!      causal past of `op` (canonical order) `root_members(group)` lists the author as an
//!      individual with Manage level — or `op` removes its own author and the author is listed —
//!      and the target is in the state the action needs (add: not listed; remove / promote /
//!      demote: listed). A `Create` is judged only by "the group is not there yet".
//!  (2) a call that did not return `Ok` leaves all observable answers, heads and the stored state
//!      of the replica unchanged (evaluated in the generator, see `ProcessEvent`).
//!  (3) provenance: every (group, member) a replica ever reports is reachable through members
//!      introduced by a `Create`/`Add` among the operations that replica accepted.
//!  (1b) independent bookkeeping: if the causal past of an accepted operation is conflict-free,
//!      the prefix replica's `root_members` of every group must equal what the accepted operations
//!      themselves declare (a replica that reports a stale level cannot vouch for itself).
//!  (4) state level: random sequences of the real state functions (hook H6) against the same
//!      bookkeeping, biased towards remove → re-add with another access.
//! The converse "authorised ⇒ accepted" is not judged. Panics are recorded; they count only when
//! the operation targets a group that exists at its dependencies.

use std::collections::{BTreeMap, BTreeSet};

use p2panda_auth::group::{GroupAction, GroupMember};
use vh_common::{Args, Report, Rng, hash_of, json, quiet_panics};

use crate::generator::*;
use crate::model::*;

enum Prefix<C: Cx> {
    Built(State<C>),
    Failed(String),
}

fn prefix_replica<C: Cx>(h: &History<C>, op: &Op<C>) -> Prefix<C> {
    let mut y = State::<C>::new();
    for i in h.ancestors(op) {
        match process(&y, &h.ops[i]) {
            Outcome::Ok(n) => y = n,
            other => return Prefix::Failed(format!("ancestor {} refused: {}", h.ops[i].id, other.label())),
        }
    }
    Prefix::Built(y)
}


// ---------------------------------------------------------------------------------------------
// Independent bookkeeping: what the accepted operations themselves declare
// ---------------------------------------------------------------------------------------------

/// group → (is_group, id) → (level, conditions) of the active members.
type RefState = BTreeMap<char, BTreeMap<(bool, char), (u8, Option<i64>)>>;

/// Fold the operations (a causal order) into the membership they declare. Only meaningful for a
/// conflict-free set of accepted operations (see `Concurrency::conflict_free`): there every
/// operation took effect exactly as validated and operations on different targets commute.
fn declared_state<C: Cx>(ops: &[&Op<C>]) -> RefState {
    let mut st: RefState = BTreeMap::new();
    for op in ops {
        let g = st.entry(op.group).or_default();
        let key = |m: &GroupMember<char>| (m.is_group(), m.id());
        match &op.action {
            GroupAction::Create { initial_members } => {
                g.clear();
                for (m, a) in initial_members {
                    g.insert(key(m), acc(a));
                }
            }
            GroupAction::Add { member, access } => {
                g.entry(key(member)).or_insert(acc(access));
            }
            GroupAction::Remove { member } => {
                g.remove(&key(member));
            }
            // "No modification will occur if the promoted member already has Manage access."
            GroupAction::Promote { member, access } => {
                if let Some(cur) = g.get_mut(&key(member)) {
                    if cur.0 != 3 {
                        *cur = acc(access);
                    }
                }
            }
            // "No modification will occur if the demoted member already has Pull access."
            GroupAction::Demote { member, access } => {
                if let Some(cur) = g.get_mut(&key(member)) {
                    if cur.0 != 0 {
                        *cur = acc(access);
                    }
                }
            }
        }
    }
    st
}

/// Causality between the accepted operations of one history.
struct Concurrency {
    anc: Vec<BTreeSet<usize>>,
    /// Concurrent pairs (i < j) of the same group that may interact in the resolver or in a merge:
    /// same target, one targets the other's author, or one of them creates the group.
    conflicts: Vec<(usize, usize)>,
}

impl Concurrency {
    fn new<C: Cx>(h: &History<C>) -> Self {
        let anc: Vec<BTreeSet<usize>> = h.ops.iter().map(|o| h.ancestors(o).into_iter().collect()).collect();
        let mut conflicts = Vec::new();
        for j in 0..h.ops.len() {
            for i in 0..j {
                if anc[j].contains(&i) || h.ops[i].group != h.ops[j].group {
                    continue;
                }
                let (a, b) = (&h.ops[i], &h.ops[j]);
                let (ta, tb) = (action_target(&a.action), action_target(&b.action));
                let clash = match (ta, tb) {
                    (Some(ta), Some(tb)) => {
                        ta == tb || ta == GroupMember::Individual(b.author) || tb == GroupMember::Individual(a.author)
                    }
                    _ => true, // a Create concurrent with anything in its group
                };
                if clash {
                    conflicts.push((i, j));
                }
            }
        }
        Concurrency { anc, conflicts }
    }

    fn conflict_free(&self, past: &BTreeSet<usize>) -> bool {
        !self.conflicts.iter().any(|(i, j)| past.contains(i) && past.contains(j))
    }
}

/// Does the causal past contain "member removed, later re-added with another level" for `who`?
fn readded_with_other_level<C: Cx>(ops: &[&Op<C>], group: char, who: char) -> bool {
    let mut last_level: Option<u8> = None;
    let mut removed_level: Option<u8> = None;
    let me = GroupMember::Individual(who);
    for op in ops.iter().filter(|o| o.group == group) {
        match &op.action {
            GroupAction::Create { initial_members } => {
                last_level = initial_members.iter().find(|(m, _)| *m == me).map(|(_, a)| level_u8(&a.level));
            }
            GroupAction::Add { member, access } if *member == me => {
                if let Some(old) = removed_level {
                    if old != level_u8(&access.level) {
                        return true;
                    }
                }
                last_level = Some(level_u8(&access.level));
            }
            GroupAction::Remove { member } if *member == me => {
                removed_level = last_level.take();
            }
            GroupAction::Promote { member, access } | GroupAction::Demote { member, access } if *member == me => {
                if last_level.is_some() {
                    last_level = Some(level_u8(&access.level));
                }
            }
            _ => {}
        }
    }
    false
}

/// Verdict of check (1) for one accepted operation.
enum Verdict {
    Fine,
    Ambiguous,
    Bad(String, String),
}

fn judge_accepted<C: Cx>(op: &Op<C>, y: &State<C>, declared: Option<&RefState>, groups: &[char]) -> Verdict {
    let kind = action_kind(&op.action);
    // Conflict-free causal past: the replica's view of every group at the dependencies must be
    // the one the accepted operations declared (membership, level, conditions).
    if let Some(decl) = declared {
        for &g in groups {
            let want: Vec<Entry> = decl
                .get(&g)
                .map(|m| m.iter().map(|(k, v)| (k.0, k.1, v.0, v.1)).collect())
                .unwrap_or_default();
            let got = root_members(y, g);
            if got != want {
                let ids = |v: &Vec<Entry>| v.iter().map(|e| (e.0, e.1)).collect::<BTreeSet<_>>();
                let lv = |v: &Vec<Entry>| v.iter().map(|e| (e.0, e.1, e.2)).collect::<BTreeSet<_>>();
                let what = if ids(&got) != ids(&want) {
                    "membership"
                } else if lv(&got) != lv(&want) {
                    "level"
                } else {
                    "conditions"
                };
                return Verdict::Bad(
                    format!("C33:state-at-dependencies-not-as-declared:{what}"),
                    format!(
                        "at the dependencies of accepted operation {} ({kind} by {}) a replica that processed exactly its (conflict-free) causal past reports root_members({g}) = {:?}, but the accepted create/add/remove/promote/demote operations declare {:?}",
                        op.id, op.author, got, want
                    ),
                );
            }
        }
    }
    if let GroupAction::Create { .. } = &op.action {
        if y.has_group(op.group) {
            return Verdict::Bad(
                "C33:accepted:create-over-existing-group".into(),
                format!(
                    "a Create for group {} by {} was accepted although the group already exists at the operation's dependencies (members there: {:?})",
                    op.group, op.author, root_members(y, op.group)
                ),
            );
        }
        return Verdict::Fine;
    }
    // Ask several times: with conditions a replica's own answer may flip (C31); do not judge then.
    let views: Vec<Vec<Entry>> = (0..6).map(|_| root_members(y, op.group)).collect();
    let author_view = |v: &Vec<Entry>| v.iter().find(|e| !e.0 && e.1 == op.author).map(|e| e.2);
    let a0 = author_view(&views[0]);
    let ids = |v: &Vec<Entry>| v.iter().map(|e| (e.0, e.1)).collect::<BTreeSet<_>>();
    if views.iter().any(|v| author_view(v) != a0 || ids(v) != ids(&views[0])) {
        return Verdict::Ambiguous;
    }
    let listed = &views[0];
    let target = action_target(&op.action).unwrap();
    // An equal-counter tie between differing accesses with conditions (C31/C32 known finding) on
    // the author or the target makes their level depend on the merge order each replica happened
    // to use, possibly frozen into a stored state: this replica cannot speak for the accepting one.
    if C::WITH
        && (has_equal_counter_tie(y, op.group, GroupMember::Individual(op.author))
            || has_equal_counter_tie(y, op.group, target))
    {
        return Verdict::Ambiguous;
    }
    let target_listed = listed.iter().any(|e| e.0 == target.is_group() && e.1 == target.id());
    let self_remove = matches!(&op.action, GroupAction::Remove { member } if *member == GroupMember::Individual(op.author));
    let author_ok = a0 == Some(3) || (self_remove && a0.is_some());
    if !author_ok {
        let author_state = match a0 {
            None => "not-a-member",
            Some(_) => "member-below-manage",
        };
        return Verdict::Bad(
            format!("C33:accepted:author-{author_state}:{kind}"),
            format!(
                "{kind} of {:?} in group {} by {} was accepted, but in the state at its dependencies {} is {} (listed there: {:?})",
                target, op.group, op.author, op.author,
                if a0.is_none() { "not an active member".to_string() } else { format!("a member with level {} (not Manage)", a0.unwrap()) },
                listed
            ),
        );
    }
    let target_ok = match &op.action {
        GroupAction::Add { .. } => !target_listed,
        _ => target_listed,
    };
    if !target_ok {
        return Verdict::Bad(
            format!("C33:accepted:invalid-target:{kind}"),
            format!(
                "{kind} of {:?} in group {} by manager {} was accepted, but at its dependencies the target is {} (listed there: {:?})",
                target, op.group, op.author,
                if target_listed { "already an active member" } else { "not an active member" },
                listed
            ),
        );
    }
    Verdict::Fine
}

/// Provenance: everything a replica reports must be reachable through introductions it accepted.
fn provenance<C: Cx>(h: &History<C>, a: &Actor<C>) -> Option<String> {
    // intro[g] = members ever introduced into g by an accepted Create / Add.
    let mut intro: BTreeMap<char, BTreeSet<(bool, char)>> = BTreeMap::new();
    for &i in &a.seen {
        let op = &h.ops[i];
        match &op.action {
            GroupAction::Create { initial_members } => {
                let e = intro.entry(op.group).or_default();
                for (m, _) in initial_members {
                    e.insert((m.is_group(), m.id()));
                }
            }
            GroupAction::Add { member, .. } => {
                intro.entry(op.group).or_default().insert((member.is_group(), member.id()));
            }
            _ => {}
        }
    }
    let mut groups = h.groups.clone();
    groups.push(UNKNOWN_GROUP);
    let ans = answers(&a.y, &groups);
    for ((g, q), listed) in &ans.0 {
        // Reachable set from g through introduced sub-groups.
        let mut reach: BTreeSet<(bool, char)> = BTreeSet::new();
        let mut stack = vec![*g];
        let mut visited = BTreeSet::new();
        while let Some(x) = stack.pop() {
            if !visited.insert(x) {
                continue;
            }
            if let Some(ms) = intro.get(&x) {
                for m in ms {
                    reach.insert(*m);
                    if m.0 && *q != Q_ROOT {
                        stack.push(m.1);
                    }
                }
            }
        }
        for e in listed {
            if !reach.contains(&(e.0, e.1)) {
                return Some(format!(
                    "replica {} reports {}{} in {q}({g}) although no Create/Add it accepted introduced that member (introduced: {:?})",
                    a.id, if e.0 { "group " } else { "" }, e.1, intro.get(g)
                ));
            }
        }
    }
    None
}


// ---------------------------------------------------------------------------------------------
// State level: the membership state functions against what their arguments declare (hook H6)
// ---------------------------------------------------------------------------------------------

/// Random sequences of the real `create/add/remove/promote/demote` (biased towards removing a
/// member and re-adding it with another access) against a bookkeeping written from the functions'
/// documented contract: `Ok` only for an active manager (or self-removal) on a valid target, and
/// afterwards every active member carries exactly the access the last accepted action declared.
fn state_level<C: Cx>(rep: &mut Report, rng: &mut Rng, seed: u64, cases: u64) {
    use p2panda_auth::group::verif as st;
    type View = BTreeMap<u8, (u8, Option<i64>)>;
    for case in 0..cases {
        let mut model: View = BTreeMap::new();
        let mut init = vec![(0u8, access::<C>(3, None))];
        for id in 1..rng.range(1, 3) as u8 {
            init.push((id, access(rng.below(4) as u8, C::generate(rng))));
        }
        for (id, a) in &init {
            model.insert(*id, acc(a));
        }
        let mut s = st::create(&init);
        let mut removed: Vec<(u8, u8)> = Vec::new(); // (id, level it had)
        let mut trace: Vec<String> = vec![format!("create {:?}", model)];
        let mut readd_seen = false;
        for _ in 0..rng.range(3, 9) {
            let managers: Vec<u8> = model.iter().filter(|(_, v)| v.0 == 3).map(|(k, _)| *k).collect();
            let mut actor = rng.below(5) as u8;
            let mut target = rng.below(5) as u8;
            let mut a = access::<C>(rng.below(4) as u8, C::generate(rng));
            let mut kind = rng.below(4);
            if rng.chance(0.35) && !managers.is_empty() {
                actor = *rng.pick(&managers);
                if let Some((id, old)) = removed.last().cloned() {
                    // Re-add a removed member with another level.
                    kind = 0;
                    target = id;
                    let mut l = rng.below(4) as u8;
                    if l == old {
                        l = (l + 1) % 4;
                    }
                    a = access(l, C::generate(rng));
                } else if let Some(t) = model.keys().cloned().find(|k| *k != actor) {
                    kind = 1;
                    target = t;
                }
            }
            let name = ["add", "remove", "promote", "demote"][kind as usize];
            let r = match kind {
                0 => st::add(s.clone(), actor, target, a.clone()),
                1 => st::remove(s.clone(), actor, target),
                2 => st::promote(s.clone(), actor, target, a.clone()),
                _ => st::demote(s.clone(), actor, target, a.clone()),
            };
            trace.push(format!("{name}(actor={actor}, target={target}, access={:?}) -> {}", acc(&a), if r.is_ok() { "Ok" } else { "Err" }));
            rep.bump("state_function_calls", 1);
            let Ok(next) = r else { continue };
            let actor_level = model.get(&actor).map(|v| v.0);
            let self_remove = kind == 1 && actor == target && actor_level.is_some();
            let target_active = model.contains_key(&target);
            let witness = |what: &str| json!({"seed": seed, "state_case": case, "conditions": C::NAME, "trace": trace, "what": what});
            if actor_level != Some(3) && !self_remove {
                rep.violation(
                    &format!("C33:state:accepted:author-not-manager:{name}"),
                    format!("state::{name} returned Ok for actor {actor} which is {} in the declared state", if actor_level.is_none() { "not an active member".into() } else { format!("a member with level {}", actor_level.unwrap()) }),
                    witness("actor"),
                );
                break;
            }
            if (kind == 0) == target_active {
                rep.violation(
                    &format!("C33:state:accepted:invalid-target:{name}"),
                    format!("state::{name} returned Ok although target {target} is {} an active member in the declared state", if target_active { "already" } else { "not" }),
                    witness("target"),
                );
                break;
            }
            match kind {
                0 => {
                    if removed.iter().any(|(id, _)| *id == target) {
                        readd_seen = true;
                        removed.retain(|(id, _)| *id != target);
                    }
                    model.insert(target, acc(&a));
                }
                1 => {
                    let old = model.remove(&target).unwrap();
                    removed.push((target, old.0));
                }
                2 => {
                    if model[&target].0 != 3 {
                        model.insert(target, acc(&a));
                    }
                }
                _ => {
                    if model[&target].0 != 0 {
                        model.insert(target, acc(&a));
                    }
                }
            }
            let got: View = next.access_levels().into_iter().map(|(id, a)| (id, acc(&a))).collect();
            if got != model {
                let what = if got.keys().collect::<Vec<_>>() != model.keys().collect::<Vec<_>>() {
                    "membership"
                } else if got.iter().any(|(k, v)| model[k].0 != v.0) {
                    "level"
                } else {
                    "conditions"
                };
                rep.violation(
                    &format!("C33:state:access-not-as-declared:{what}:{name}"),
                    format!("after an accepted {name} the state reports active members {:?}, the accepted actions declare {:?}", got, model),
                    witness("state"),
                );
                break;
            }
            s = next;
        }
        if readd_seen {
            rep.bump("state_sequences_with_readd_other_level", 1);
        }
    }
}

fn run_case<C: Cx>(args: &Args, case: u64, rep: &mut Report) {
    let mut rng = Rng::fork(args.seed, case);
    let params = Params::random(&mut rng, 0.3, cfg!(miri));
    let h = generate::<C>(&mut rng, params.clone());
    let base = json!({
        "seed": args.seed, "case": case, "conditions": C::NAME, "params": format!("{:?}", params),
        "groups": h.groups.iter().collect::<String>(), "individuals": h.individuals.iter().collect::<String>(),
    });
    let ops_json = |upto: Option<&Op<C>>| {
        // Operations needed to replay: the causal past of `upto`, or the whole history.
        match upto {
            Some(op) => json!(h.ancestors(op).into_iter().map(|i| op_json(&h.ops[i])).collect::<Vec<_>>()),
            None => json!(h.ops.iter().map(op_json).collect::<Vec<_>>()),
        }
    };

    let conc = Concurrency::new(&h);
    rep.bump("readd_with_other_access_patterns", h.readd_patterns);
    rep.bump("readded_member_then_acts_ops", h.readd_then_act);
    if h.params.branches == 1 {
        rep.bump("linear_histories", 1);
    }
    let mut judged: BTreeSet<u32> = BTreeSet::new();
    let mut hostile_rejected_auth = 0u64;
    let mut hostile_accepted = 0u64;
    let mut stale_accepted = 0u64;
    for ev in &h.events {
        rep.bump("process_calls", 1);
        let ok = ev.outcome == "ok";
        if ev.hostile {
            rep.bump(&format!("hostile_{}", if ok { "accepted" } else { "refused" }), 1);
            if !ok {
                rep.bump(&format!("hostile_outcome_{}", ev.outcome.split(' ').next().unwrap_or("")), 1);
            }
            if ok {
                hostile_accepted += 1;
                if ev.stale_deps {
                    stale_accepted += 1;
                }
            } else if ev.outcome.starts_with("err:StateChange") {
                hostile_rejected_auth += 1;
            }
        }
        // (2) unchanged on reject.
        if let Some(unchanged) = ev.unchanged_after_reject {
            rep.bump("reject_unchanged_checks", 1);
            if !unchanged {
                rep.violation(
                    "C33:rejected-op-changed-replica",
                    format!("replica {} refused operation {} ({}) but its answers/heads/stored state differ afterwards", ev.replica, ev.op.id, ev.outcome),
                    json!({"base": base, "op": op_json(&ev.op), "replica": ev.replica.to_string(), "ops": ops_json(None)}),
                );
            }
        }
        // Panics.
        if ev.outcome.starts_with("panic") {
            rep.bump("panics_recorded", 1);
            match prefix_replica(&h, &ev.op) {
                Prefix::Built(y) if y.has_group(ev.op.group) => {
                    rep.violation(
                        &format!("C33:panic:existing-group:{}", action_kind(&ev.op.action)),
                        format!("processing a {} on existing group {} panicked: {}", action_kind(&ev.op.action), ev.op.group, ev.outcome),
                        json!({"base": base, "op": op_json(&ev.op), "causal_past": ops_json(Some(&ev.op)), "outcome": ev.outcome}),
                    );
                }
                Prefix::Built(_) => rep.bump("panics_on_unknown_group_not_judged", 1),
                Prefix::Failed(_) => rep.bump("prefix_replica_failed", 1),
            }
        }
        // (1) accepted ⇒ authorised at its dependencies. Judged once per operation.
        if ok && judged.insert(ev.op.id) {
            match prefix_replica(&h, &ev.op) {
                Prefix::Failed(why) => {
                    rep.bump("prefix_replica_failed", 1);
                    rep.extra("prefix_replica_failure_example", json!(why));
                }
                Prefix::Built(y) => {
                    let past: BTreeSet<usize> = match ev.index {
                        Some(i) if i < conc.anc.len() && h.ops[i].id == ev.op.id => conc.anc[i].clone(),
                        _ => h.ancestors(&ev.op).into_iter().collect(),
                    };
                    let past_ops: Vec<&Op<C>> = past.iter().map(|i| &h.ops[*i]).collect();
                    let declared = if conc.conflict_free(&past) {
                        rep.bump("accepted_ops_with_conflict_free_past_checked_against_declared_state", 1);
                        Some(declared_state(&past_ops))
                    } else {
                        None
                    };
                    if readded_with_other_level(&past_ops, ev.op.group, ev.op.author) {
                        rep.bump("accepted_ops_by_member_readded_with_other_level", 1);
                        if declared.is_some() {
                            rep.bump("accepted_ops_by_member_readded_with_other_level_conflict_free", 1);
                        }
                    }
                    match judge_accepted(&ev.op, &y, declared.as_ref(), &h.groups) {
                    Verdict::Fine => rep.bump("accepted_ops_judged_fine", 1),
                    Verdict::Ambiguous => rep.bump("accepted_ops_ambiguous_prefix_view", 1),
                    Verdict::Bad(sig, what) => {
                        rep.violation(
                            &sig,
                            what,
                            json!({
                                "base": base, "op": op_json(&ev.op), "hostile": ev.hostile, "stale_deps": ev.stale_deps,
                                "accepted_by_replica": ev.replica.to_string(),
                                "causal_past": ops_json(Some(&ev.op)),
                                "prefix_replica_answers": answers_json(&answers(&y, &h.groups)),
                            }),
                        );
                    }
                    }
                }
            }
        }
    }
    // Accepted by the author but refused elsewhere: recorded (the converse direction is not judged).
    rep.bump("acceptance_disagreements_recorded", h.disagreements.len() as u64);

    // (3) provenance on every replica at the end of the history.
    for a in &h.actors {
        rep.bump("provenance_checks", 1);
        if let Some(what) = provenance(&h, a) {
            rep.violation(
                "C33:member-without-introduction",
                what,
                json!({"base": base, "replica": a.id.to_string(), "ops": ops_json(None),
                       "seen": a.seen.iter().map(|i| h.ops[*i].id).collect::<Vec<_>>(),
                       "answers": answers_json(&answers(&a.y, &h.groups))}),
            );
        }
    }

    rep.bump("operations_accepted", h.ops.len() as u64);
    if stale_accepted > 0 {
        rep.bump("histories_with_accepted_stale_dependency_op", 1);
    }
    let nontrivial = hostile_rejected_auth > 0 && hostile_accepted > 0;
    if nontrivial {
        let key = hash_of(&serde_json::to_string(&ops_json(None)).unwrap());
        rep.case(Some((C::NAME, key, h.events.len())));
    } else {
        rep.case(None::<()>);
    }
    if rep.want_sample() && nontrivial {
        let hostile: Vec<_> = h
            .events
            .iter()
            .filter(|e| e.hostile)
            .take(8)
            .map(|e| json!({"replica": e.replica.to_string(), "op": op_json(&e.op), "stale_deps": e.stale_deps, "outcome": e.outcome}))
            .collect();
        rep.sample(json!({"base": base, "accepted_operations": h.ops.len(), "process_calls": h.events.len(), "hostile_calls": hostile}));
    }
}

pub fn run(args: &Args) {
    quiet_panics();
    let mut rep = Report::new(
        args,
        "case = one seeded concurrent group history from C31's generator in which 30 % of the steps are hostile: an \
         arbitrary create/add/remove/promote/demote on an arbitrary target by a member, ex-member or stranger, 30 % of \
         them declared on stale dependencies (earlier heads of the author's replica), a few re-using an operation id or \
         naming an unknown group; every process call on every replica is an observation. Non-trivial = the history \
         contains >=1 hostile operation refused with a state-change (authorisation/validity) error and >=1 hostile \
         operation that was accepted; distinct = hash of the accepted operation list. Even cases without conditions, odd \
         cases with u8 conditions.",
        if cfg!(miri) { 1 } else { 40 },
    );
    let n = if cfg!(miri) { 2 } else { args.n(1000, 30000) };
    {
        let mut rng = Rng::fork(args.seed, u64::MAX);
        let k = if cfg!(miri) { 20 } else { args.n(20_000, 500_000) };
        state_level::<()>(&mut rep, &mut rng, args.seed, k);
        state_level::<Cond>(&mut rep, &mut rng, args.seed, k);
    }
    let trace = std::env::var("VH_TRACE").is_ok();
    let first = args.param_u64("from", 0);
    for case in first..n {
        if trace {
            eprintln!("case {case} t={:.1}s", rep.elapsed().as_secs_f64());
        }
        if case % 2 == 1 {
            run_case::<Cond>(args, case, &mut rep);
        } else {
            run_case::<()>(args, case, &mut rep);
        }
        if rep.elapsed().as_secs() > 40 * 60 {
            rep.inconclusive(format!("time budget reached after {case} of {n} histories"));
            break;
        }
    }
    rep.extra("histories", json!(n));
    let seen = |k: &str| rep.extra.get(k).and_then(|v| v.as_u64()).unwrap_or(0);
    if !cfg!(miri) && (seen("readded_member_then_acts_ops") == 0 || seen("state_sequences_with_readd_other_level") == 0) {
        rep.inconclusive("no remove -> re-add with another access -> act pattern was generated");
    }
    rep.finish(args);
}
