//! C15 — unacknowledged operations are replayed after any crash.
//!
//! Parent: generates publish / prune / import / receive / ack histories, runs each in a child
//! process on a file database and crashes it (i) by `abort()` after step k for EVERY k of the
//! history, (ii) by SIGKILL at a random offset. After the crash the parent reads the database *as
//! found* (cursor + stored operations), computes the expected replay set from the statement, and
//! starts a second child which re-opens the topic stream from its frontier and records what is
//! delivered.
//!
//! Oracle: delivered == { stored operations of the topic's logs with a body whose seq is above the
//! cursor height of their (author, log) } , in ascending seq per log, nothing at or below the
//! cursor. `ReplayStarted.total_operations` is recorded, not judged.

use std::collections::{BTreeMap, BTreeSet};
use std::io::Write;
use std::process::{Command, Stdio};
use std::sync::atomic::{AtomicUsize, Ordering};
use std::sync::{Arc, Mutex};
use std::time::{Duration, Instant};

use futures_util::StreamExt;
use p2panda::node::AckPolicy;
use p2panda::operation::{Header, LogId, Operation};
use p2panda::streams::{ProcessedOperation, StreamEvent, StreamFrom};
use p2panda_core::{Body, SigningKey, Topic, VerifyingKey};
use p2panda_store::cursors::CursorStore;
use p2panda_store::sqlite::SqliteStoreBuilder;
use serde::{Deserialize, Serialize};
use vh_common::{Args, Report, Rng, hex, json};

use crate::common::{HonestLog, Row_, cbor_string, dump_ops, log_id_hex};

#[derive(Clone, Debug, Serialize, Deserialize)]
struct WireOp {
    header: String,
    body: Option<String>,
}

#[derive(Clone, Debug, Serialize, Deserialize)]
#[serde(tag = "t")]
enum Step {
    Publish { msg: String },
    Prune { msg: Option<String> },
    Import { ops: Vec<WireOp> },
    Recv,
    Ack { which: usize },
    /// Two acknowledgements in flight at once (two application workers), preferably of operations
    /// of different authors.
    AckPair { a: usize, b: usize },
}

#[derive(Clone, Debug, Serialize, Deserialize)]
struct Plan {
    topic: String,
    key: String,
    explicit: bool,
    steps: Vec<Step>,
}

fn unhex(s: &str) -> Vec<u8> {
    (0..s.len() / 2).map(|i| u8::from_str_radix(&s[2 * i..2 * i + 2], 16).unwrap()).collect()
}

fn to_wire(op: &Operation) -> WireOp {
    WireOp { header: hex(&op.header.to_bytes()), body: op.body.as_ref().map(|b| hex(b.as_bytes())) }
}

fn from_wire(w: &WireOp) -> Operation {
    let header: Header = p2panda_core::cbor::decode_cbor(&unhex(&w.header)[..]).expect("header");
    Operation { hash: header.hash(), header, body: w.body.as_ref().map(|b| Body::new(&unhex(b))) }
}

fn topic_of(p: &str) -> Topic {
    let mut a = [0u8; 32];
    a.copy_from_slice(&unhex(p));
    Topic::from(a)
}

fn key_of(p: &str) -> SigningKey {
    let mut a = [0u8; 32];
    a.copy_from_slice(&unhex(p));
    SigningKey::from_bytes(&a)
}

// ---------------------------------------------------------------------------------------------
// child: run the history, crash after step k
// ---------------------------------------------------------------------------------------------

pub fn child(args: &Args) {
    let plan: Plan = serde_json::from_str(&std::fs::read_to_string(args.param("plan").unwrap()).unwrap()).unwrap();
    let db = args.param("db").unwrap().to_string();
    let journal_path = args.param("journal").unwrap().to_string();
    let crash_after: Option<usize> = args.param("crash_after").and_then(|s| s.parse().ok());
    // Finer crash points: abort at the n-th time a submitter sits between "operation handed to the
    // pipeline" and "result observed" (hook H2 schedule point inside Task::ready).
    if let Some(n) = args.param("crash_hook").and_then(|s| s.parse::<usize>().ok()) {
        static HITS: AtomicUsize = AtomicUsize::new(0);
        p2panda_core::verif::install(move |name| {
            if name == "task_ready:after_check" && HITS.fetch_add(1, Ordering::SeqCst) + 1 == n {
                std::process::abort();
            }
        });
    }
    let rt = tokio::runtime::Builder::new_multi_thread().worker_threads(2).enable_all().build().unwrap();
    rt.block_on(async move {
        let mut journal = std::fs::OpenOptions::new().create(true).append(true).open(&journal_path).unwrap();
        let mut log = |line: String| {
            writeln!(journal, "{line}").unwrap();
            journal.sync_all().unwrap();
        };
        let topic = topic_of(&plan.topic);
        let node = p2panda::Node::builder().mdns_mode(p2panda::network::MdnsDiscoveryMode::Disabled)
            .signing_key(key_of(&plan.key))
            .database_url(&format!("sqlite://{db}?mode=rwc"))
            .ack_policy(if plan.explicit { AckPolicy::Explicit } else { AckPolicy::Automatic })
            .spawn()
            .await
            .expect("node");
        let (tx, mut sub) = node.stream::<String>(topic).await.expect("stream");
        log("ready".into());
        let received: Arc<Mutex<Vec<ProcessedOperation<String>>>> = Arc::new(Mutex::new(Vec::new()));
        let nrecv = Arc::new(AtomicUsize::new(0));
        {
            let received = received.clone();
            let nrecv = nrecv.clone();
            tokio::spawn(async move {
                while let Some(ev) = sub.next().await {
                    if let StreamEvent::Processed { operation, .. } = ev {
                        received.lock().unwrap().push(operation);
                        nrecv.fetch_add(1, Ordering::SeqCst);
                    }
                }
            });
        }
        let mut consumed = 0usize;
        let mut acked: BTreeSet<usize> = BTreeSet::new();
        for (i, step) in plan.steps.iter().enumerate() {
            match step {
                Step::Publish { msg } => {
                    let fut = tx.publish(msg.clone()).await.expect("publish");
                    let h = fut.hash();
                    match tokio::time::timeout(Duration::from_secs(60), fut).await {
                        Ok(_) => log(format!("publish {i} {}", h.to_hex())),
                        Err(_) => {
                            log(format!("stuck {i}"));
                            std::process::exit(3);
                        }
                    }
                }
                Step::Prune { msg } => {
                    let fut = tx.prune(msg.clone()).await.expect("prune");
                    let h = fut.hash();
                    match tokio::time::timeout(Duration::from_secs(60), fut).await {
                        Ok(_) => log(format!("prune {i} {}", h.to_hex())),
                        Err(_) => {
                            log(format!("stuck {i}"));
                            std::process::exit(3);
                        }
                    }
                }
                Step::Import { ops } => {
                    let ops: Vec<Operation> = ops.iter().map(from_wire).collect();
                    let fut = tx.import(futures_util::stream::iter(ops)).await.expect("import");
                    match tokio::time::timeout(Duration::from_secs(60), fut).await {
                        Ok(_) => log(format!("import {i}")),
                        Err(_) => {
                            log(format!("stuck {i}"));
                            std::process::exit(3);
                        }
                    }
                }
                Step::Recv => {
                    let t0 = Instant::now();
                    while nrecv.load(Ordering::SeqCst) <= consumed && t0.elapsed() < Duration::from_millis(1500) {
                        tokio::time::sleep(Duration::from_millis(2)).await;
                    }
                    if nrecv.load(Ordering::SeqCst) > consumed {
                        consumed += 1;
                    }
                    log(format!("recv {i} {consumed}"));
                }
                Step::AckPair { .. } => {}
                Step::Ack { which } => {
                    let target = {
                        let r = received.lock().unwrap();
                        if r.is_empty() { None } else { Some((which % r.len(), r[which % r.len()].clone())) }
                    };
                    if let Some((ix, op)) = target {
                        let header: &Header = op.processed().header();
                        let (author, seq) = (header.verifying_key, header.seq_num);
                        match op.ack().await {
                            Ok(()) => {
                                acked.insert(ix);
                                log(format!("ack {i} {} {}", author.to_hex(), seq));
                            }
                            Err(e) => log(format!("ackerr {i} {e}")),
                        }
                    } else {
                        log(format!("noack {i}"));
                    }
                }
            }
            if let Step::AckPair { a, b } = step {
                let pair = {
                    let r = received.lock().unwrap();
                    if r.len() < 2 {
                        None
                    } else {
                        let ia = a % r.len();
                        // Prefer a partner from another author: the cursor is one row per topic.
                        let author_a = r[ia].processed().header().verifying_key;
                        let ib = (0..r.len())
                            .map(|k| (b + k) % r.len())
                            .find(|k| *k != ia && r[*k].processed().header().verifying_key != author_a)
                            .unwrap_or((ia + 1) % r.len());
                        Some((r[ia].clone(), r[ib].clone()))
                    }
                };
                if let Some((x, y)) = pair {
                    let hx = (x.processed().header().verifying_key, x.processed().header().seq_num);
                    let hy = (y.processed().header().verifying_key, y.processed().header().seq_num);
                    let (rx, ry) = tokio::join!(x.ack(), y.ack());
                    if rx.is_ok() {
                        log(format!("ack {i} {} {}", hx.0.to_hex(), hx.1));
                    }
                    if ry.is_ok() {
                        log(format!("ack {i} {} {}", hy.0.to_hex(), hy.1));
                    }
                } else {
                    log(format!("noack {i}"));
                }
            }
            if crash_after == Some(i) {
                std::process::abort();
            }
        }
        log("done".into());
        // Idle until killed (SIGKILL mode) or exit.
        if args.param("linger").is_some() {
            tokio::time::sleep(Duration::from_secs(30)).await;
        }
        std::process::exit(0);
    });
}

// ---------------------------------------------------------------------------------------------
// replay child: re-open from the frontier and record deliveries up to a sentinel
// ---------------------------------------------------------------------------------------------

#[derive(Serialize, Deserialize, Debug, Default)]
struct ReplayOut {
    delivered: Vec<(String, String, u32)>, // hash, author, seq
    replay_started_total: Option<u32>,
    replay_ended: bool,
    failed: Vec<String>,
    sentinel_seen: bool,
}

pub fn replay_child(args: &Args) {
    let db = args.param("db").unwrap().to_string();
    let topic = topic_of(args.param("topic").unwrap());
    let key = key_of(args.param("key").unwrap());
    let out_path = args.param("result").unwrap().to_string();
    // Diagnostics only: trace of the stack's own log lines on stderr (the parent keeps the tail when
    // the replay stalls).
    let _ = tracing_subscriber::fmt()
        .with_env_filter(tracing_subscriber::EnvFilter::new("p2panda=trace,p2panda_stream=trace,p2panda_store=trace,p2panda_sync=debug,sqlx=warn"))
        .with_writer(std::io::stderr)
        .with_ansi(false)
        .try_init();
    let rt = tokio::runtime::Builder::new_multi_thread().worker_threads(2).enable_all().build().unwrap();
    rt.block_on(async move {
        let node = p2panda::Node::builder().mdns_mode(p2panda::network::MdnsDiscoveryMode::Disabled)
            .signing_key(key)
            .database_url(&format!("sqlite://{db}?mode=rwc"))
            .ack_policy(AckPolicy::Explicit)
            .spawn()
            .await
            .expect("node");
        let (tx, mut sub) = node.stream_from::<String>(topic, StreamFrom::Frontier).await.expect("stream");
        let mut out = ReplayOut::default();
        // Everything the stream emits before the sentinel's own Processed event belongs to the replay:
        // locally published operations are only looked at after the replay task finished.
        // The publish may fail with a transient "database is locked" (writes outside the store's
        // transaction permit, e.g. the prune step, compete for SQLite's write lock): retry.
        let mut fut = None;
        for _ in 0..20 {
            match tx.publish("__sentinel__".to_string()).await {
                Ok(f) => {
                    fut = Some(f);
                    break;
                }
                Err(e) => {
                    out.failed.push(format!("sentinel publish: {e}"));
                    tokio::time::sleep(Duration::from_millis(250)).await;
                }
            }
        }
        let Some(fut) = fut else {
            std::fs::write(&out_path, serde_json::to_string(&out).unwrap()).unwrap();
            std::process::exit(0);
        };
        let sentinel = fut.hash();
        let deadline = tokio::time::Instant::now() + Duration::from_secs(120);
        while let Ok(Some(ev)) = tokio::time::timeout_at(deadline, sub.next()).await {
            match ev {
                StreamEvent::Processed { operation, .. } => {
                    if operation.id() == sentinel {
                        out.sentinel_seen = true;
                        break;
                    }
                    let header: &Header = operation.processed().header();
                    out.delivered.push((operation.id().to_hex(), header.verifying_key.to_hex(), header.seq_num));
                }
                StreamEvent::ReplayStarted { total_operations } => out.replay_started_total = Some(total_operations),
                StreamEvent::ReplayEnded => out.replay_ended = true,
                StreamEvent::ProcessingFailed { error, .. } => out.failed.push(format!("processing failed: {error}")),
                StreamEvent::ReplayFailed { error } => out.failed.push(format!("replay failed: {error}")),
                StreamEvent::DecodeFailed { error, .. } => out.failed.push(format!("decode failed: {error}")),
                StreamEvent::AckFailed { error, .. } => out.failed.push(format!("ack failed: {error}")),
                _ => {}
            }
        }
        std::fs::write(&out_path, serde_json::to_string(&out).unwrap()).unwrap();
        std::process::exit(0);
    });
}

// ---------------------------------------------------------------------------------------------
// parent
// ---------------------------------------------------------------------------------------------

fn gen_plan(rng: &mut Rng) -> Plan {
    let topic_bytes = rng.array32();
    let topic = Topic::from(topic_bytes);
    let key = rng.array32();
    let explicit = rng.chance(0.7);
    let mut foreign: Vec<HonestLog> = (0..2).map(|_| HonestLog::new(rng, topic)).collect();
    let n = 6 + rng.usize_below(9);
    let mut steps = Vec::new();
    let mut k = 0;
    for _ in 0..n {
        k += 1;
        let s = match rng.below(12) {
            0..=3 => Step::Publish { msg: format!("m{k}") },
            4 => Step::Prune { msg: if rng.bool() { Some(format!("p{k}")) } else { None } },
            5..=6 => {
                let f = rng.usize_below(foreign.len());
                let cnt = 1 + rng.usize_below(3);
                let mut ops: Vec<WireOp> = Vec::new();
                if rng.chance(0.3) {
                    // An operation from the log's future (gap, no prune flag): ingest must reject it
                    // and it must leave no trace - in particular not in the cursor.
                    let gap_seq = foreign[f].next_seq + 1 + rng.below(3) as u32;
                    let body = if rng.bool() { Some(cbor_string(&format!("gap {k}"))) } else { None };
                    let rogue = crate::common::sign_op(&foreign[f].key, topic, gap_seq, Some(p2panda_core::Hash::digest(b"gap")), body.as_deref(), false);
                    ops.push(to_wire(&rogue));
                }
                for j in 0..cnt {
                    let body = if rng.chance(0.85) { Some(cbor_string(&format!("f{f} {k}.{j}"))) } else { None };
                    ops.push(to_wire(&foreign[f].next(body.as_deref(), rng.chance(0.12))));
                }
                Step::Import { ops }
            }
            7..=8 => Step::Recv,
            9 | 10 => Step::AckPair { a: rng.usize_below(64), b: rng.usize_below(64) },
            _ => Step::Ack { which: rng.usize_below(64) },
        };
        steps.push(s);
    }
    Plan { topic: hex(&topic_bytes), key: hex(&key), explicit, steps }
}

struct CaseResult {
    key: Option<(usize, usize, bool)>,
    violations: Vec<(String, String, serde_json::Value)>,
    inconclusive: Option<String>,
    sample: serde_json::Value,
    stored_unacked: usize,
}

fn me() -> std::path::PathBuf {
    std::env::current_exe().expect("current exe")
}

fn run_case(seed: u64, case: u64, crash: Option<usize>, sigkill: bool, hook: Option<usize>) -> CaseResult {
    let mut rng = Rng::fork(seed, case);
    let plan = gen_plan(&mut rng);
    let tmp = tempfile::tempdir().expect("tempdir");
    let (dirpath, _guard) = if std::env::var("VH_KEEP").is_ok() {
        let p = tmp.keep();
        eprintln!("keeping {}", p.display());
        (p, None)
    } else {
        (tmp.path().to_path_buf(), Some(tmp))
    };
    struct D(std::path::PathBuf);
    impl D {
        fn path(&self) -> &std::path::Path {
            &self.0
        }
    }
    let dir = D(dirpath);
    let db = dir.path().join("db.sqlite");
    let planp = dir.path().join("plan.json");
    let journalp = dir.path().join("journal");
    let resultp = dir.path().join("replay.json");
    std::fs::write(&planp, serde_json::to_string(&plan).unwrap()).unwrap();
    let mut res = CaseResult { key: None, violations: vec![], inconclusive: None, sample: json!(null), stored_unacked: 0 };
    let witness = |extra: serde_json::Value| json!({"seed": seed, "case": case, "crash_after_step": crash, "crash_at_hook_hit": hook, "sigkill": sigkill, "explicit_ack": plan.explicit, "steps": plan.steps.iter().map(|s| match s { Step::Import{ops} => format!("Import({})", ops.len()), other => format!("{other:?}") }).collect::<Vec<_>>(), "detail": extra});

    // ---- first child: run and crash ----------------------------------------------------------
    let mut cmd = Command::new(me());
    cmd.arg("c15-child")
        .arg(format!("db={}", db.display()))
        .arg(format!("plan={}", planp.display()))
        .arg(format!("journal={}", journalp.display()))
        .stdout(Stdio::null())
        .stderr(Stdio::null());
    if let Some(k) = crash {
        cmd.arg(format!("crash_after={k}"));
    }
    if let Some(n) = hook {
        cmd.arg(format!("crash_hook={n}"));
    }
    if sigkill {
        cmd.arg("linger=1");
    }
    let mut child = cmd.spawn().expect("spawn child");
    if sigkill {
        // Wait for "ready", then kill at a random offset inside the history.
        let t0 = Instant::now();
        while t0.elapsed() < Duration::from_secs(60) {
            if std::fs::read_to_string(&journalp).map(|s| s.contains("ready")).unwrap_or(false) {
                break;
            }
            std::thread::sleep(Duration::from_millis(2));
        }
        let off = rng.below(20 * plan.steps.len() as u64 + 1);
        std::thread::sleep(Duration::from_millis(off));
        let _ = child.kill();
        let _ = child.wait();
    } else {
        let t0 = Instant::now();
        loop {
            match child.try_wait() {
                Ok(Some(_)) => break,
                Ok(None) if t0.elapsed() > Duration::from_secs(180) => {
                    let _ = child.kill();
                    let _ = child.wait();
                    res.inconclusive = Some(format!("case {case}: first child exceeded the 180 s watchdog"));
                    return res;
                }
                _ => std::thread::sleep(Duration::from_millis(3)),
            }
        }
    }
    let journal = std::fs::read_to_string(&journalp).unwrap_or_default();
    if journal.contains("stuck") {
        res.inconclusive = Some(format!("case {case}: a publish/import future did not resolve within 60 s in the child (recorded, not judged here)"));
        return res;
    }
    if !db.exists() {
        res.inconclusive = Some(format!("case {case}: crash happened before the database was created"));
        return res;
    }

    // ---- database as found -------------------------------------------------------------------
    let rt = tokio::runtime::Builder::new_current_thread().enable_all().build().unwrap();
    let topic = topic_of(&plan.topic);
    let (rows, cursor): (Vec<Row_>, BTreeMap<(String, String), u32>) = rt.block_on(async {
        let store = SqliteStoreBuilder::new().database_url(&format!("sqlite://{}?mode=rwc", db.display())).max_connections(1).build().await.expect("open db");
        let rows = dump_ops(&store).await;
        let cur: Option<p2panda_core::Cursor<VerifyingKey, LogId>> = CursorStore::get_cursor(&store, &topic.to_string()).await.expect("cursor");
        let mut m = BTreeMap::new();
        if let Some(c) = cur {
            for (a, logs) in c.state() {
                for (l, s) in logs {
                    m.insert((a.to_hex(), hex(l.as_bytes())), *s);
                }
            }
        }
        store.pool().close().await;
        (rows, m)
    });
    let lid = log_id_hex(topic);
    let mut expected: BTreeMap<String, Vec<u32>> = BTreeMap::new();
    let mut expected_hashes = BTreeSet::new();
    for r in rows.iter().filter(|r| r.log == lid && r.has_body) {
        let above = match cursor.get(&(r.author.clone(), r.log.clone())) {
            Some(h) => r.seq > *h,
            None => true,
        };
        if above {
            expected.entry(r.author.clone()).or_default().push(r.seq);
            expected_hashes.insert(r.hash.clone());
        }
    }
    for v in expected.values_mut() {
        v.sort();
    }
    res.stored_unacked = expected_hashes.len();

    // The cursor may only point at operations that exist: every way to advance it (application ack,
    // system-level ack of a body-less operation) follows a completed ingest, and entries only
    // disappear below a stored prune point.
    for ((author, log), h) in &cursor {
        if *log != lid {
            continue;
        }
        let stored_at = rows.iter().any(|r| &r.author == author && &r.log == log && r.seq == *h);
        let pruned_above = rows.iter().any(|r| &r.author == author && &r.log == log && r.prune && r.seq > *h);
        if !stored_at && !pruned_above {
            let below: Vec<u32> = rows.iter().filter(|r| &r.author == author && &r.log == log && r.has_body && r.seq <= *h).map(|r| r.seq).collect();
            res.violations.push(("C15:cursor-ahead-of-stored-log".into(), format!("persisted cursor of ({}.., topic log) is at seq {h} but no such operation is stored (and no prune point above it); stored operations with a body at or below it that will never be replayed: {below:?}", &author[..8]), witness(json!({"journal": journal, "stored": rows.iter().filter(|r| r.log == lid).map(|r| format!("{}..#{}{}", &r.author[..8], r.seq, if r.has_body {"+body"} else {""})).collect::<Vec<_>>()}))));
        }
    }

    // Journal cross-checks (durability of returned calls).
    // A returned publish must be durable. Its operation may only be missing again if a stored
    // prune point of the node's own log explains it (a prune step that was still in flight at the
    // crash has already stored its prune-flagged operation before anything is deleted).
    let me_hex = key_of(&plan.key).verifying_key().to_hex();
    let own_prune_stored = rows.iter().any(|r| r.author == me_hex && r.log == lid && r.prune);
    for line in journal.lines().rev() {
        let parts: Vec<&str> = line.split_whitespace().collect();
        match parts.as_slice() {
            ["publish", _, h] => {
                if !own_prune_stored && !rows.iter().any(|r| &r.hash == h) {
                    res.violations.push(("C15:returned-publish-not-stored".into(), format!("publish of {h} returned before the crash but the operation is not in the database (and no prune point of the own log is stored)"), witness(json!({"journal": journal}))));
                }
            }
            ["ack", _, author, seq] => {
                let s: u32 = seq.parse().unwrap_or(0);
                if cursor.get(&(author.to_string(), lid.clone())).is_none_or(|c| *c < s) {
                    res.violations.push(("C15:returned-ack-not-persisted".into(), format!("ack of ({author}, seq {s}) returned before the crash but the persisted cursor is {:?}", cursor.get(&(author.to_string(), lid.clone()))), witness(json!({"journal": journal}))));
                }
            }
            _ => {}
        }
    }

    // ---- second child: replay from the frontier ----------------------------------------------
    let replay_err = std::fs::File::create(dir.path().join("replay.stderr")).expect("stderr file");
    let st = Command::new(me())
        .arg("c15-replay")
        .arg(format!("db={}", db.display()))
        .arg(format!("topic={}", plan.topic))
        .arg(format!("key={}", plan.key))
        .arg(format!("result={}", resultp.display()))
        .stdout(Stdio::null())
        .stderr(Stdio::from(replay_err))
        .spawn()
        .and_then(|mut ch| {
            // If the replay child is still running after 100 s, take a stack dump of all its threads
            // (diagnostics for a genuine stall; the verdict is still taken from what it reports).
            let t0 = Instant::now();
            loop {
                if let Some(st) = ch.try_wait()? {
                    return Ok(st);
                }
                if t0.elapsed() > Duration::from_secs(100) {
                    let dump = format!("/tmp/c15-stall-seed{seed}-case{case}-{}.txt", std::process::id());
                    let _ = Command::new("gdb")
                        .args(["-p", &ch.id().to_string(), "-batch", "-ex", "thread apply all bt 25"])
                        .stdout(std::fs::File::create(&dump).map(Stdio::from).unwrap_or(Stdio::null()))
                        .stderr(Stdio::null())
                        .status();
                    return ch.wait();
                }
                std::thread::sleep(Duration::from_millis(20));
            }
        });
    let out: Option<ReplayOut> = std::fs::read_to_string(&resultp).ok().and_then(|s| serde_json::from_str(&s).ok());
    let Some(out) = out else {
        let err = std::fs::read_to_string(dir.path().join("replay.stderr")).unwrap_or_default();
        let tail: String = err.lines().filter(|l| l.contains("panicked") || l.contains("rror")).take(3).collect::<Vec<_>>().join(" | ");
        res.inconclusive = Some(format!("case {case}: replay child produced no result ({st:?}): {tail}"));
        return res;
    };
    if !out.sentinel_seen {
        let err = std::fs::read_to_string(dir.path().join("replay.stderr")).unwrap_or_default();
        let keep = format!("/tmp/c15-stall-seed{seed}-case{case}-{}.stderr", std::process::id());
        let _ = std::fs::write(&keep, &err);
        res.inconclusive = Some(format!("case {case} (crash_after={crash:?}, hook={hook:?}, sigkill={sigkill}): replay sentinel not observed within the watchdog (delivered {} so far, replay_started={:?}, replay_ended={}, errors={:?})", out.delivered.len(), out.replay_started_total, out.replay_ended, out.failed));
        return res;
    }
    let delivered_hashes: Vec<&String> = out.delivered.iter().map(|d| &d.0).collect();
    let delivered_set: BTreeSet<String> = delivered_hashes.iter().map(|s| (*s).clone()).collect();
    let detail = || json!({"cursor": cursor.iter().map(|(k, v)| format!("{}..:{}", &k.0[..8], v)).collect::<Vec<_>>(), "stored": rows.iter().filter(|r| r.log == lid).map(|r| format!("{}..#{}{}{}", &r.author[..8], r.seq, if r.has_body {"+body"} else {""}, if r.prune {"+prune"} else {""})).collect::<Vec<_>>(), "expected": expected.iter().map(|(a, s)| format!("{}..:{s:?}", &a[..8])).collect::<Vec<_>>(), "delivered": out.delivered.iter().map(|d| format!("{}..#{}", &d.1[..8], d.2)).collect::<Vec<_>>(), "replay_started_total": out.replay_started_total, "stream_errors": out.failed, "journal": journal});
    for h in expected_hashes.difference(&delivered_set) {
        let r = rows.iter().find(|r| &r.hash == h).unwrap();
        res.violations.push(("C15:unacked-operation-not-replayed".into(), format!("stored unacknowledged operation ({}.., seq {}) was not delivered after restart", &r.author[..8], r.seq), witness(detail())));
        break;
    }
    for d in &out.delivered {
        if !expected_hashes.contains(&d.0) {
            let at_or_below = cursor.get(&(d.1.clone(), lid.clone())).is_some_and(|c| d.2 <= *c);
            let sig = if at_or_below { "C15:acknowledged-operation-redelivered" } else { "C15:unexpected-delivery" };
            res.violations.push((sig.into(), format!("({}.., seq {}) was delivered after restart but is not a stored unacknowledged operation with a body", &d.1[..8], d.2), witness(detail())));
            break;
        }
    }
    if delivered_hashes.len() != delivered_set.len() {
        res.violations.push(("C15:duplicate-delivery".into(), "an operation was delivered twice during one replay".into(), witness(detail())));
    }
    let mut last: BTreeMap<&String, u32> = BTreeMap::new();
    for d in &out.delivered {
        if let Some(p) = last.get(&d.1) {
            if d.2 <= *p {
                res.violations.push(("C15:replay-out-of-log-order".into(), format!("log of {}.. delivered seq {} after seq {p}", &d.1[..8], d.2), witness(detail())));
                break;
            }
        }
        last.insert(&d.1, d.2);
    }
    res.key = Some((plan.steps.len(), crash.unwrap_or(usize::MAX - hook.unwrap_or(0)), plan.explicit));
    res.sample = json!({"case": case, "crash_after_step": crash, "crash_at_hook_hit": hook, "sigkill": sigkill, "explicit_ack": plan.explicit, "stored_in_topic": rows.iter().filter(|r| r.log == lid).count(), "expected_replay": expected_hashes.len(), "delivered": out.delivered.len(), "replay_started_total": out.replay_started_total});
    res
}

pub fn run(args: &Args) {
    let mut rep = Report::new(
        args,
        "histories of 6..14 steps (publish / prune with and without body / import of 1..3 foreign \
         operations, some prune-flagged or body-less / receive / ack of a received operation / two concurrent acks), explicit \
         (70%) or automatic ack policy, file database; crash = abort() after step k for every k of each \
         history (fault enumeration), abort() inside a step at the n-th pipeline wait (hook), plus SIGKILL at a random offset; then restart + stream_from(Frontier). \
         Non-trivial = the database found after the crash holds >= 1 stored, unacknowledged operation with \
         a body; distinct by (history, crash point).",
        5,
    );
    if let Some(c) = args.param("case") {
        // Replay one case: `vh-node C15 --seed S case=7 [crash=K | hook=N | sigkill=1]`
        let r = run_case(
            args.seed,
            c.parse().expect("case"),
            args.param("crash").and_then(|s| s.parse().ok()),
            args.param("sigkill").is_some(),
            args.param("hook").and_then(|s| s.parse().ok()),
        );
        println!("violations: {:#?}\ninconclusive: {:?}\nsample: {}", r.violations, r.inconclusive, r.sample);
        return;
    }
    let histories = args.n(12, 150);
    let sigkills = args.n(30, 800);
    // Work list: (case id, crash point, sigkill)
    let mut work: Vec<(u64, Option<usize>, bool, Option<usize>)> = Vec::new();
    let hook_points = args.n(6, 12) as usize;
    for h in 0..histories {
        let plan = gen_plan(&mut Rng::fork(args.seed, h));
        for k in 0..plan.steps.len() {
            work.push((h, Some(k), false, None));
        }
        work.push((h, None, false, None)); // ran to completion, then clean exit (still a restart)
        for n in 1..=hook_points.min(2 * plan.steps.len()) {
            work.push((h, None, false, Some(n))); // abort inside a step, at the n-th pipeline wait
        }
    }
    for s in 0..sigkills {
        work.push((1_000_000 + s, None, true, None));
    }
    let work = Arc::new(Mutex::new(work.into_iter().rev().collect::<Vec<_>>()));
    let results: Arc<Mutex<Vec<(u64, Option<usize>, bool, Option<usize>, CaseResult)>>> = Arc::new(Mutex::new(Vec::new()));
    let threads = args.param_u64("threads", 8) as usize;
    let seed = args.seed;
    let mut hs = Vec::new();
    for _ in 0..threads {
        let work = work.clone();
        let results = results.clone();
        hs.push(std::thread::spawn(move || loop {
            let item = work.lock().unwrap().pop();
            let Some((c, k, sk, hk)) = item else { break };
            let r = run_case(seed, c, k, sk, hk);
            results.lock().unwrap().push((c, k, sk, hk, r));
        }));
    }
    for h in hs {
        let _ = h.join();
    }
    let mut results = std::mem::take(&mut *results.lock().unwrap());
    results.sort_by_key(|r| (r.0, r.1, r.2, r.3));
    let mut crash_points = 0u64;
    let mut kills = 0u64;
    let mut hook_crashes = 0u64;
    for (c, k, sk, hk, r) in results {
        if sk { kills += 1 } else if hk.is_some() { hook_crashes += 1 } else { crash_points += 1 }
        let nontrivial = r.key.is_some() && r.stored_unacked >= 1;
        rep.case(if nontrivial { Some((c, k, sk, hk)) } else { None });
        if let Some(w) = r.inconclusive {
            rep.bump("inconclusive_cases", 1);
            if w.contains("before the database was created") {
                rep.bump("crashed_before_database_existed", 1);
            } else {
                rep.inconclusive(w);
            }
        }
        for (sig, what, w) in r.violations {
            rep.violation(&sig, what, w);
        }
        if !r.sample.is_null() && (nontrivial || rep.samples.is_empty()) {
            rep.sample(r.sample);
        }
        rep.bump("stored_unacked_operations_seen", r.stored_unacked as u64);
    }
    rep.extra("abort_crash_points", json!(crash_points));
    rep.extra("sigkill_crashes", json!(kills));
    rep.extra("in_step_hook_crash_points", json!(hook_crashes));
    rep.finish(args);
}
