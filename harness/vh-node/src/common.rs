//! Shared helpers: honest logs with the Node API extensions, raw database dumps.

use std::collections::BTreeMap;

use p2panda::operation::{Extensions, Header, LogId, Operation};
use p2panda_core::{Body, Hash, SigningKey, Topic, VerifyingKey};
use p2panda_store::SqliteStore;
use sqlx::Row;
use vh_common::Rng;

/// An author's honest append-only log for a topic (valid chain, Basic extensions).
pub struct HonestLog {
    pub key: SigningKey,
    pub topic: Topic,
    pub next_seq: u32,
    pub backlink: Option<Hash>,
}

impl HonestLog {
    pub fn new(rng: &mut Rng, topic: Topic) -> Self {
        HonestLog { key: SigningKey::from_bytes(&rng.array32()), topic, next_seq: 0, backlink: None }
    }

    pub fn author(&self) -> VerifyingKey {
        self.key.verifying_key()
    }

    pub fn next(&mut self, body: Option<&[u8]>, prune: bool) -> Operation {
        let op = sign_op(&self.key, self.topic, self.next_seq, self.backlink, body, prune);
        self.next_seq += 1;
        self.backlink = Some(op.hash);
        op
    }
}

pub fn unsigned_header(
    author: VerifyingKey,
    topic: Topic,
    seq_num: u32,
    backlink: Option<Hash>,
    body: Option<&[u8]>,
    prune: bool,
) -> Header {
    let body = body.map(Body::new);
    Header {
        version: 1,
        verifying_key: author,
        signature: None,
        payload_size: body.as_ref().map(|b| b.size()).unwrap_or(0),
        payload_hash: body.as_ref().map(|b| b.hash()),
        seq_num,
        backlink,
        extensions: Extensions::from_topic(topic).set_prune_flag(prune),
    }
}

pub fn sign_op(
    key: &SigningKey,
    topic: Topic,
    seq_num: u32,
    backlink: Option<Hash>,
    body: Option<&[u8]>,
    prune: bool,
) -> Operation {
    let mut header = unsigned_header(key.verifying_key(), topic, seq_num, backlink, body, prune);
    header.sign(key);
    Operation { hash: header.hash(), header, body: body.map(Body::new) }
}

/// CBOR-encoded application message (the Node API decodes bodies as CBOR of `M`).
pub fn cbor_string(s: &str) -> Vec<u8> {
    p2panda_core::cbor::encode_cbor(&s.to_string()).expect("encode")
}

#[derive(Clone, Debug, PartialEq, Eq, PartialOrd, Ord, Hash)]
pub struct Row_ {
    pub author: String,
    pub log: String,
    pub seq: u32,
    pub hash: String,
    pub has_body: bool,
    pub prune: bool,
}

/// Raw dump of `operations_v1`, decoded from the stored header bytes (independent of the store's
/// query API and column names).
pub async fn dump_ops(store: &SqliteStore) -> Vec<Row_> {
    let rows = sqlx::query("SELECT hash, header, body IS NOT NULL AS has_body FROM operations_v1")
        .fetch_all(store.pool())
        .await
        .expect("dump query");
    let mut out = Vec::new();
    for r in rows {
        let header_bytes: Vec<u8> = r.get("header");
        let has_body: bool = r.get("has_body");
        let hash: String = r.get("hash");
        let header: Header = p2panda_core::cbor::decode_cbor(&header_bytes[..]).expect("stored header decodes");
        out.push(Row_ {
            author: header.verifying_key.to_hex(),
            log: vh_common::hex(header.extensions.log_id().as_bytes()),
            seq: header.seq_num,
            hash,
            has_body,
            prune: header.extensions.prune_flag().is_set(),
        });
    }
    out.sort();
    out
}

pub fn by_log(rows: &[Row_]) -> BTreeMap<(String, String), Vec<Row_>> {
    let mut m: BTreeMap<(String, String), Vec<Row_>> = BTreeMap::new();
    for r in rows {
        m.entry((r.author.clone(), r.log.clone())).or_default().push(r.clone());
    }
    m
}

pub fn log_id_hex(topic: Topic) -> String {
    vh_common::hex(LogId::from_topic(topic).as_bytes())
}

pub fn topic_from(rng: &mut Rng) -> Topic {
    Topic::from(rng.array32())
}
