//! C01 (Node part) — tampered operations pushed through a real Node's `import` are never reported
//! as Processed and leave the store unchanged; the untampered operation is then still accepted.
//! (The ingest-level part with the independent reference validator lives in `vh-store C01`.)

use std::collections::BTreeMap;
use std::time::Duration;

use futures_util::StreamExt;
use p2panda::operation::{Extensions, Operation};
use p2panda::streams::StreamEvent;
use p2panda_core::traits::Digest;
use p2panda_core::{Body, Hash, SigningKey, Topic};
use p2panda_store::sqlite::SqliteStoreBuilder;
use vh_common::{Args, Report, Rng, json};

use crate::common::{HonestLog, cbor_string, dump_ops, topic_from};

fn rehash(mut op: Operation) -> Operation {
    op.hash = op.header.hash();
    op
}

/// All single-field / single-byte mutants of a valid operation, labelled.
fn mutants(rng: &mut Rng, op: &Operation, other_topic: Topic) -> Vec<(String, Operation)> {
    let mut out: Vec<(String, Operation)> = Vec::new();
    let mut push = |label: &str, f: &dyn Fn(&mut Operation)| {
        let mut m = op.clone();
        f(&mut m);
        out.push((label.to_string(), rehash(m)));
    };
    let other_key = SigningKey::from_bytes(&rng.array32());
    let other_hash = Hash::digest(rng.bytes(9));
    for v in [0u16, 2, u16::MAX] {
        push(&format!("version={v}"), &|m| m.header.version = v);
    }
    push("verifying_key=other", &|m| m.header.verifying_key = other_key.verifying_key());
    push("signature=none", &|m| m.header.signature = None);
    push("resigned-by-other-key", &|m| {
        let author = m.header.verifying_key;
        m.header.sign(&other_key);
        m.header.verifying_key = author;
    });
    for pos in [0usize, 31, 32, 63, rng.usize_below(64), rng.usize_below(64)] {
        for mask in [0x01u8, 0x80, 0xff] {
            push(&format!("signature[{pos}]^{mask:#x}"), &|m| {
                let mut b = m.header.signature.unwrap().to_bytes();
                b[pos] ^= mask;
                m.header.signature = Some(p2panda_core::Signature::from_bytes(&b));
            });
        }
    }
    push("payload_size+1", &|m| m.header.payload_size += 1);
    push("payload_size-1", &|m| m.header.payload_size = m.header.payload_size.saturating_sub(1).max(1) - if m.header.payload_size == 1 { 1 } else { 0 });
    push("payload_size=0", &|m| m.header.payload_size = 0);
    push("payload_hash=other", &|m| m.header.payload_hash = Some(other_hash));
    push("payload_hash=none", &|m| m.header.payload_hash = None);
    push("seq_num+1", &|m| m.header.seq_num += 1);
    push("seq_num-1", &|m| m.header.seq_num = m.header.seq_num.wrapping_sub(1));
    push("seq_num=0", &|m| {
        if m.header.seq_num != 0 {
            m.header.seq_num = 0
        } else {
            m.header.seq_num = 7
        }
    });
    push("backlink=other", &|m| m.header.backlink = Some(other_hash));
    push("backlink=toggled", &|m| m.header.backlink = if m.header.backlink.is_some() { None } else { Some(other_hash) });
    push("prune_flag=toggled", &|m| {
        let p = m.header.extensions.prune_flag().is_set();
        m.header.extensions = m.header.extensions.clone().set_prune_flag(!p);
    });
    push("extensions=other-topic", &|m| m.header.extensions = Extensions::from_topic(other_topic));
    if let Some(body) = &op.body {
        let b = body.to_bytes();
        push("body-truncated", &|m| m.body = Some(Body::new(&b[..b.len() - 1])));
        push("body-extended", &|m| {
            let mut x = b.clone();
            x.push(0);
            m.body = Some(Body::new(&x))
        });
        for pos in [0usize, b.len() - 1, rng.usize_below(b.len())] {
            push(&format!("body[{pos}]^1"), &|m| {
                let mut x = b.clone();
                x[pos] ^= 1;
                m.body = Some(Body::new(&x))
            });
        }
    } else {
        push("body-attached-to-bodyless", &|m| m.body = Some(Body::new(b"surprise")));
    }
    // A mutant that happens to equal the original is not a mutant.
    out.retain(|(_, m)| m.header != op.header || m.body != op.body);
    out
}

async fn case(seed: u64, case: u64, rep: &mut Report) {
    let mut rng = Rng::fork(seed, case);
    let dir = tempfile::tempdir().expect("tempdir");
    let url = format!("sqlite://{}/db.sqlite?mode=rwc", dir.path().display());
    let store = SqliteStoreBuilder::new().database_url(&url).max_connections(4).build().await.expect("store");
    let node = match p2panda::Node::builder().mdns_mode(p2panda::network::MdnsDiscoveryMode::Disabled).database_pool(store.pool().clone()).spawn().await {
        Ok(n) => n,
        Err(e) => {
            rep.inconclusive(format!("node spawn failed: {e}"));
            return;
        }
    };
    let topic = topic_from(&mut rng);
    let other_topic = topic_from(&mut rng);
    let (tx, mut sub) = match node.stream::<String>(topic).await { Ok(x) => x, Err(e) => { rep.inconclusive(format!("node.stream failed: {e}")); return; } };
    let (ev_tx, mut ev_rx) = tokio::sync::mpsc::unbounded_channel::<(String, String)>();
    let drain = tokio::spawn(async move {
        while let Some(ev) = sub.next().await {
            let item = match &ev {
                StreamEvent::Processed { operation, .. } => ("Processed".to_string(), operation.id().to_hex()),
                StreamEvent::ProcessingFailed { event, .. } => ("ProcessingFailed".to_string(), event.hash().to_hex()),
                StreamEvent::ImportEnded { .. } => ("ImportEnded".to_string(), String::new()),
                StreamEvent::DecodeFailed { event, .. } => ("DecodeFailed".to_string(), event.hash().to_hex()),
                _ => continue,
            };
            if ev_tx.send(item).is_err() {
                break;
            }
        }
    });
    let mut log = HonestLog::new(&mut rng, topic);
    let steps = 3 + rng.usize_below(3);
    for step in 0..steps {
        let with_body = rng.chance(0.8);
        let valid = log.next(if with_body { Some(cbor_string(&format!("msg {step}"))) } else { None }.as_deref(), rng.chance(0.2) && step > 0);
        let ms = mutants(&mut rng, &valid, other_topic);
        let before = dump_ops(&store).await;
        let labels: BTreeMap<String, String> = ms.iter().map(|(l, m)| (m.hash.to_hex(), l.clone())).collect();
        let n = ms.len();
        if let Err(e) = tx.import(futures_util::stream::iter(ms.into_iter().map(|(_, m)| m).collect::<Vec<_>>())).await { rep.inconclusive(format!("import failed: {e}")); return; }
        let mut processed = Vec::new();
        let mut failed = 0usize;
        let ended = loop {
            match tokio::time::timeout(Duration::from_secs(60), ev_rx.recv()).await {
                Ok(Some((k, h))) => match k.as_str() {
                    "ImportEnded" => break true,
                    "Processed" | "DecodeFailed" => processed.push(h),
                    "ProcessingFailed" => failed += 1,
                    _ => {}
                },
                _ => break false,
            }
        };
        if !ended {
            rep.inconclusive("import of mutants did not end within the watchdog");
            break;
        }
        let after = dump_ops(&store).await;
        for (h, l) in &labels {
            // One case per mutant; distinct by (mutation label class, seq class, body presence).
            let class = l.split(|c| c == '[' || c == '=').next().unwrap_or(l).to_string();
            rep.case(Some((class, valid.header.seq_num.min(2), with_body)));
            let _ = h;
        }
        for h in &processed {
            let l = labels.get(h).cloned().unwrap_or_else(|| "?".into());
            let class = l.split(|c| c == '[' || c == '=').next().unwrap_or(&l).to_string();
            rep.violation(&format!("C01:node:tampered-operation-delivered:{class}"), format!("mutant `{l}` of a valid operation was reported to the application as ingested"), json!({"seed": seed, "case": case, "step": step, "mutation": l, "original_seq": valid.header.seq_num}));
        }
        if after != before {
            let added: Vec<_> = after.iter().filter(|r| !before.contains(r)).collect();
            let gone: Vec<_> = before.iter().filter(|r| !after.contains(r)).collect();
            let l = added.first().and_then(|r| labels.get(&r.hash)).cloned().unwrap_or_else(|| "?".into());
            let class = l.split(|c| c == '[' || c == '=').next().unwrap_or(&l).to_string();
            rep.violation(&format!("C01:node:store-changed-by-tampered-operation:{class}"), format!("importing {n} mutants changed the store: added {added:?}, removed {gone:?}"), json!({"seed": seed, "case": case, "step": step, "mutation_of_first_added": l}));
        }
        rep.bump("mutants_rejected", failed as u64);
        if case == 0 && step == 0 {
            rep.sample(json!({"valid_seq": valid.header.seq_num, "mutants": labels.values().cloned().collect::<Vec<_>>(), "rejected": failed}));
        }
        // The untampered operation must still be accepted afterwards.
        if let Err(e) = tx.import(futures_util::stream::iter(vec![valid.clone()])).await { rep.inconclusive(format!("import failed: {e}")); return; }
        let mut ok = false;
        loop {
            match tokio::time::timeout(Duration::from_secs(60), ev_rx.recv()).await {
                Ok(Some((k, h))) => {
                    if k == "ImportEnded" {
                        break;
                    }
                    if k == "Processed" && h == valid.hash.to_hex() {
                        ok = true;
                    }
                }
                _ => break,
            }
        }
        let stored = dump_ops(&store).await.iter().any(|r| r.hash == valid.hash.to_hex());
        if !stored || (with_body && !ok) {
            rep.violation("C01:node:valid-operation-rejected-after-mutants", format!("the untampered operation (seq {}) was not accepted after its mutants had been rejected (stored={stored}, processed={ok})", valid.header.seq_num), json!({"seed": seed, "case": case, "step": step}));
            break;
        }
    }
    drain.abort();
}

pub fn run(args: &Args) {
    let mut rep = Report::new(
        args,
        "real Node (file database, import entry point = the path sync uses): for each of 3-5 successive \
         valid operations of a foreign log, every single-field mutant (version, author, signature bits at \
         6 positions x 3 masks, unsigned, re-signed by another key, payload size/hash, seq, backlink, prune \
         flag, extensions of another topic, body truncated/extended/flipped/attached) is imported; none may \
         be reported as Processed, the raw dump must be unchanged, and the untampered operation must then \
         still be accepted. Non-trivial = every mutant; distinct by (mutation class, seq class, body present).",
        20,
    );
    let rt = tokio::runtime::Builder::new_multi_thread().worker_threads(4).enable_all().build().expect("rt");
    let n = args.n(16, 300);
    rt.block_on(async {
        for c in 0..n {
            case(args.seed, c, &mut rep).await;
        }
    });
    rep.finish(args);
}
