//! C14 — every pipeline submission completes with its own result.
//!
//! Real `Pipeline` + `TaskTracker` (cfg-exported), in-memory SQLite, a multi-thread runtime of
//! submitters against the pipeline's own thread. Hook H2 pauses a submitter between its result
//! check and its wait registration in `Task::ready` with probability p.
//!
//! Safety: the returned event carries the submitted hash and a final status.
//! Progress is decided on *state*, never on a deadline: a submission is LOST iff a sentinel
//! operation submitted later has already been returned by the (FIFO) pipeline, the tracker is
//! empty (every tracked task was marked done — removal happens before the notification), and the
//! call is still pending while its runtime is completely idle (all workers parked, empty queues).

use std::sync::atomic::{AtomicU64, AtomicUsize, Ordering};
use std::sync::{Arc, Mutex};
use std::time::{Duration, Instant};

use p2panda::operation::{Extensions, LogId, Operation};
use p2panda::processor::verif::{Pipeline, TaskTracker};
use p2panda::processor::Event;
use p2panda_core::traits::Digest;
use p2panda_core::{Hash, Topic};
use p2panda_store::sqlite::SqliteStoreBuilder;
use vh_common::{Args, Report, Rng, hash_of, json};

use crate::common::{HonestLog, cbor_string, topic_from};

static WINDOW_ENTRIES: AtomicU64 = AtomicU64::new(0);
static WINDOW_PAUSES: AtomicU64 = AtomicU64::new(0);
static HOOK_RNG: AtomicU64 = AtomicU64::new(0x9E3779B97F4A7C15);
static PAUSE_PERMILLE: AtomicU64 = AtomicU64::new(0);
static PAUSE_MAX_US: AtomicU64 = AtomicU64::new(200);
static LATE_RETURNS: AtomicU64 = AtomicU64::new(0);

fn hook(name: &'static str) {
    if name != "task_ready:after_check" {
        return;
    }
    WINDOW_ENTRIES.fetch_add(1, Ordering::Relaxed);
    // xorshift on a shared atomic: cheap, and racy on purpose (only used for pause decisions).
    let mut x = HOOK_RNG.load(Ordering::Relaxed);
    x ^= x << 13;
    x ^= x >> 7;
    x ^= x << 17;
    HOOK_RNG.store(x, Ordering::Relaxed);
    if x % 1000 < PAUSE_PERMILLE.load(Ordering::Relaxed) {
        WINDOW_PAUSES.fetch_add(1, Ordering::Relaxed);
        let us = (x >> 20) % PAUSE_MAX_US.load(Ordering::Relaxed).max(1);
        std::thread::sleep(Duration::from_micros(us));
    }
}

#[derive(Clone)]
struct Sub {
    op: Operation,
    topic: Topic,
    /// Expected to complete (valid, submitted in log order by its only owner).
    must_complete: bool,
    /// Expected to fail (deliberately invalid).
    must_fail: bool,
}

struct RoundOutcome {
    submissions: u64,
    returned: u64,
    lost: Vec<serde_json::Value>,
    wrong: Vec<(String, String, serde_json::Value)>,
    order_hash: u64,
    inconclusive: Option<String>,
    dup_submissions: u64,
}

fn run_round(seed: u64, round: u64, workers: usize, submitters: usize, per: usize, herd: bool) -> RoundOutcome {
    let mut rng = Rng::fork(seed, round);
    let rt = tokio::runtime::Builder::new_multi_thread().worker_threads(workers).enable_all().build().expect("runtime");
    rt.block_on(async move {
        let store = SqliteStoreBuilder::memory().build().await.expect("store");
        let tasks: TaskTracker<Event<LogId, Extensions, Topic>, Hash> = TaskTracker::new();
        let pipeline = Pipeline::<LogId, Extensions, Topic>::new(store.clone(), tasks.clone());
        let topic = topic_from(&mut rng);

        // Each submitter owns one honest log; a shared pool of ops is additionally submitted by
        // several submitters (concurrent submissions of the same operation).
        let mut plans: Vec<Vec<Sub>> = Vec::new();
        let mut shared_log = HonestLog::new(&mut rng, topic);
        let shared: Vec<Operation> = (0..per.max(2)).map(|i| shared_log.next(Some(&cbor_string(&format!("shared {i}"))), false)).collect();
        let mut dup_submissions = 0;
        if herd {
            // A herd: every submitter pushes the SAME few operations (large bodies, so cloning the
            // result under the task's lock takes a while) at the same time. Many callers share one
            // task and enter `ready()` together, before and after the pipeline marked it done.
            let big: Vec<Operation> = (0..4)
                .map(|i| {
                    let mut body = cbor_string(&format!("herd {i} "));
                    body.extend(std::iter::repeat(0x61u8).take(1_500_000));
                    // keep it a valid CBOR text: re-encode a long string instead
                    let text = "a".repeat(1_500_000 + i);
                    let _ = body;
                    shared_log.next(Some(&cbor_string(&text)), false)
                })
                .collect();
            for _ in 0..submitters {
                plans.push(big.iter().map(|op| Sub { op: op.clone(), topic, must_complete: false, must_fail: false }).collect());
                dup_submissions += big.len() as u64;
            }
        }
        for s in 0..(if herd { 0 } else { submitters }) {
            let mut log = HonestLog::new(&mut rng, topic);
            let mut plan = Vec::new();
            for i in 0..per {
                match rng.below(10) {
                    0..=5 => {
                        let op = log.next(Some(&cbor_string(&format!("s{s} #{i}"))), rng.chance(0.05));
                        plan.push(Sub { op, topic, must_complete: true, must_fail: false });
                    }
                    6..=8 => {
                        // Same operation as other submitters (may fail on ordering: no expectation).
                        let op = shared[rng.usize_below(shared.len())].clone();
                        dup_submissions += 1;
                        plan.push(Sub { op, topic, must_complete: false, must_fail: false });
                    }
                    _ => {
                        // Invalid: signature of another key.
                        let mut op = log.next(Some(&cbor_string("forged")), false);
                        // Undo the log advance so the owner's chain stays valid.
                        log.next_seq -= 1;
                        log.backlink = op.header.backlink;
                        let other = p2panda_core::SigningKey::from_bytes(&rng.array32());
                        op.header.sign(&other);
                        op.hash = op.header.hash();
                        plan.push(Sub { op, topic, must_complete: false, must_fail: true });
                    }
                }
            }
            plans.push(plan);
        }

        let total: u64 = plans.iter().map(|p| p.len() as u64).sum();
        let returned = Arc::new(AtomicUsize::new(0));
        let pending: Arc<Mutex<Vec<Option<(usize, usize, String)>>>> = Arc::new(Mutex::new(vec![None; submitters]));
        let wrong: Arc<Mutex<Vec<(String, String, serde_json::Value)>>> = Arc::new(Mutex::new(Vec::new()));
        let order: Arc<Mutex<Vec<(usize, usize)>>> = Arc::new(Mutex::new(Vec::new()));

        let mut handles = Vec::new();
        for (s, plan) in plans.into_iter().enumerate() {
            let pipeline = pipeline.clone();
            let returned = returned.clone();
            let pending = pending.clone();
            let wrong = wrong.clone();
            let order = order.clone();
            handles.push(tokio::spawn(async move {
                for (i, sub) in plan.into_iter().enumerate() {
                    let hash = sub.op.hash;
                    pending.lock().unwrap()[s] = Some((s, i, hash.to_hex()));
                    let prune = sub.op.header.extensions.prune_flag();
                    let ev = Event::verif_new(sub.op.clone(), LogId::from_topic(sub.topic), sub.topic, prune);
                    let out = pipeline.process(ev).await;
                    pending.lock().unwrap()[s] = None;
                    order.lock().unwrap().push((s, i));
                    returned.fetch_add(1, Ordering::SeqCst);
                    let w = |sig: &str, what: String| {
                        wrong.lock().unwrap().push((sig.to_string(), what, json!({"submitter": s, "index": i, "hash": hash.to_hex()})));
                    };
                    if out.hash() != hash {
                        w("C14:result-for-other-operation", format!("submitted {} but the call returned the event of {}", hash.to_hex(), out.hash().to_hex()));
                    } else if !out.is_completed() && !out.is_failed() {
                        w("C14:result-not-final", "returned event is still Pending in a processor".to_string());
                    } else if sub.must_complete && !out.is_completed() {
                        w("C14:valid-submission-failed", format!("a valid in-order operation of an exclusively owned log failed: {:?}", out.failure_reason().map(|e| e.to_string())));
                    } else if sub.must_fail && !out.is_failed() {
                        w("C14:forged-submission-completed", "an operation signed by a different key completed".to_string());
                    }
                }
            }));
        }

        // ---- state-based progress monitor ----------------------------------------------------
        let started = Instant::now();
        let mut lost = Vec::new();
        let mut inconclusive = None;
        let mut last = 0usize;
        let mut stable_since = Instant::now();
        let mut sentinel_log = HonestLog::new(&mut rng, topic);
        loop {
            if handles.iter().all(|h| h.is_finished()) {
                break;
            }
            tokio::time::sleep(Duration::from_millis(5)).await;
            let now = returned.load(Ordering::SeqCst);
            if now != last {
                last = now;
                stable_since = Instant::now();
                continue;
            }
            if stable_since.elapsed() < Duration::from_millis(300) {
                continue;
            }
            // No call returned for a while. Ask the pipeline for a sentinel (FIFO): once it is back,
            // everything submitted before it has been processed and marked done.
            let sop = sentinel_log.next(None, false);
            let sev = Event::verif_new(sop.clone(), LogId::from_topic(topic), topic, false.into());
            // The sentinel call itself may hit the same defect; give it its own state-based retry.
            let sentinel = tokio::time::timeout(Duration::from_secs(5), pipeline.process(sev)).await;
            if returned.load(Ordering::SeqCst) != last {
                last = returned.load(Ordering::SeqCst);
                stable_since = Instant::now();
                continue;
            }
            let tracked = tasks.len().await;
            if sentinel.is_ok() {
                // The pipeline is alive and has finished everything submitted before the sentinel.
                // Give the runtime idle time, then ask for a second sentinel: whatever was enqueued
                // in the meantime is processed as well. A call that is still pending with no return
                // in between has nothing left that could wake it.
                tokio::time::sleep(Duration::from_millis(300)).await;
                let sop2 = sentinel_log.next(None, false);
                let sev2 = Event::verif_new(sop2, LogId::from_topic(topic), topic, false.into());
                let sentinel2 = tokio::time::timeout(Duration::from_secs(5), pipeline.process(sev2)).await;
                tokio::time::sleep(Duration::from_millis(200)).await;
                if sentinel2.is_ok() && returned.load(Ordering::SeqCst) == last {
                    // Decide on runtime *state*, not on elapsed time (a loaded machine can delay a
                    // runnable task for seconds): the submitters' runtime must be completely idle
                    // - every worker parked, nothing in the global queue, and no worker woke up
                    // while we looked - seen twice 50 ms apart with no call returning. Parked
                    // workers have empty local queues, the pipeline thread has answered two
                    // sentinels and has nothing queued, so nothing is left that could wake a
                    // pending submitter.
                    let metrics = tokio::runtime::Handle::current().metrics();
                    let idle_now = || {
                        let n = metrics.num_workers();
                        let c1: Vec<u64> = (0..n).map(|w| metrics.worker_park_unpark_count(w)).collect();
                        let q = metrics.global_queue_depth();
                        let c2: Vec<u64> = (0..n).map(|w| metrics.worker_park_unpark_count(w)).collect();
                        q == 0 && c1 == c2 && c1.iter().all(|c| c % 2 == 1)
                    };
                    let t_idle = Instant::now();
                    let mut verdict = None;
                    while t_idle.elapsed() < Duration::from_secs(40) {
                        if returned.load(Ordering::SeqCst) != last {
                            verdict = Some(false);
                            break;
                        }
                        if idle_now() {
                            tokio::time::sleep(Duration::from_millis(50)).await;
                            if idle_now() && returned.load(Ordering::SeqCst) == last {
                                verdict = Some(true);
                                break;
                            }
                        }
                        tokio::time::sleep(Duration::from_millis(20)).await;
                    }
                    match verdict {
                        Some(false) => {
                            last = returned.load(Ordering::SeqCst);
                            stable_since = Instant::now();
                            LATE_RETURNS.fetch_add(1, Ordering::SeqCst);
                            continue;
                        }
                        None => {
                            inconclusive = Some(format!("round {round}: calls pending after two sentinels but the runtime never went idle within 40 s (machine overloaded?)"));
                            break;
                        }
                        Some(true) => {}
                    }
                    let still_tracked = tasks.len().await;
                    let p = pending.lock().unwrap().clone();
                    for e in p.into_iter().flatten() {
                        lost.push(json!({"submitter": e.0, "index": e.1, "hash": e.2, "tracked_tasks": still_tracked, "tracked_before": tracked}));
                    }
                    break;
                }
                continue;
            }
            if started.elapsed() > Duration::from_secs(60) {
                inconclusive = Some(format!("round {round}: no progress for 60 s and the pipeline did not answer a sentinel (tracked={tracked})"));
                break;
            }
        }
        for h in &handles {
            h.abort();
        }
        let order_hash = hash_of(&*order.lock().unwrap());
        let wrong = std::mem::take(&mut *wrong.lock().unwrap());
        RoundOutcome { submissions: total, returned: returned.load(Ordering::SeqCst) as u64, lost, wrong, order_hash, inconclusive, dup_submissions }
    })
}

pub fn run(args: &Args) {
    let mut rep = Report::new(
        args,
        "rounds of 1..16 submitter tasks (2..8 runtime workers) each pushing 8..40 operations through \
         the real Pipeline::process: own valid logs (must complete), the same shared operations from \
         several submitters (concurrent duplicates), forged operations (must fail); 25% 'herd' rounds in which 6..16 submitters push the same four 1.5 MB operations simultaneously (many callers share one task); hook pauses 0..200us \
         between the result check and the wait registration with p in {0, 0.1, 1}. Non-trivial = a \
         round in which some submitter reached the check-to-wait window (hook entries > 0) and \
         duplicates were submitted; distinct by the global return order of the round.",
        5,
    );
    p2panda_core::verif::install(hook);
    let rounds = args.n(250, 6000);
    let mut total_sub = 0;
    let mut total_ret = 0;
    // Every Pipeline leaves its thread (and that thread's runtime) behind: the layered processor
    // stream never terminates. Long runs are therefore split into shards (separate processes).
    let (shard, shards) = args.param("shard").and_then(|s| s.split_once('/')).map(|(a, b)| (a.parse::<u64>().unwrap_or(0), b.parse::<u64>().unwrap_or(1).max(1))).unwrap_or((0, 1));
    for r in (0..rounds).filter(|r| r % shards == shard) {
        let mut rng = Rng::fork(args.seed ^ 0xC14, r);
        let p = *rng.pick(&[0u64, 100, 1000, 1000]);
        PAUSE_PERMILLE.store(p, Ordering::Relaxed);
        PAUSE_MAX_US.store(*rng.pick(&[20u64, 200, 200, 1000]), Ordering::Relaxed);
        let workers = 2 + rng.usize_below(7);
        let submitters = 1 + rng.usize_below(16);
        let per = 8 + rng.usize_below(33);
        let entries_before = WINDOW_ENTRIES.load(Ordering::Relaxed);
        let herd = rng.chance(0.25) || args.param("herd").is_some();
        let out = run_round(args.seed, r, workers, submitters.max(if herd { 6 } else { 1 }), per, herd);
        if herd {
            rep.bump("herd_rounds", 1);
        }
        let entries = WINDOW_ENTRIES.load(Ordering::Relaxed) - entries_before;
        total_sub += out.submissions;
        total_ret += out.returned;
        rep.add_evaluations(out.submissions.saturating_sub(1));
        rep.case(if entries > 0 && out.dup_submissions > 0 { Some(out.order_hash) } else { None });
        if let Some(w) = out.inconclusive {
            rep.inconclusive(w);
        }
        for l in &out.lost {
            let tracked_left = l.get("tracked_tasks").and_then(|v| v.as_u64()).unwrap_or(0);
            rep.violation(
                if tracked_left == 0 { "C14:submission-never-returns" } else { "C14:submission-never-returns:task-still-tracked" },
                format!("Pipeline::process is still pending although two later sentinels were processed and no call returned in between ({} task(s) still tracked, pause p={}‰)", tracked_left, p),
                json!({"seed": args.seed, "round": r, "workers": workers, "submitters": submitters, "per": per, "pause_permille": p, "lost": l, "window_entries_in_round": entries}),
            );
        }
        for (sig, what, w) in out.wrong {
            rep.violation(&sig, what, json!({"seed": args.seed, "round": r, "detail": w}));
        }
        if r < 3 {
            rep.sample(json!({"round": r, "workers": workers, "submitters": submitters, "ops_per_submitter": per, "pause_permille": p, "submissions": out.submissions, "returned": out.returned, "window_entries": entries, "duplicate_submissions": out.dup_submissions}));
        }
    }
    p2panda_core::verif::clear();
    rep.extra("submissions", json!(total_sub));
    rep.extra("returned", json!(total_ret));
    rep.extra("hook_window_entries", json!(WINDOW_ENTRIES.load(Ordering::Relaxed)));
    rep.extra("late_returns_after_two_sentinels_not_judged", json!(LATE_RETURNS.load(Ordering::Relaxed)));
    rep.extra("hook_pauses_injected", json!(WINDOW_PAUSES.load(Ordering::Relaxed)));
    if WINDOW_ENTRIES.load(Ordering::Relaxed) == 0 {
        rep.inconclusive("hook task_ready:after_check was never reached");
    }
    rep.finish(args);
}
