//! Node-level harness (p2panda Node API, processing pipeline, child processes on file databases).
//!
//! C01 (node part), C04, C14, C15 (+ the child modes `c15-child` / `c15-replay`).

mod c01;
mod c04;
mod c14;
mod c15;
mod common;

use vh_common::Args;

fn main() {
    let args = Args::parse();
    match args.prop.as_str() {
        "C01" => c01::run(&args),
        "C04" => c04::run(&args),
        "C14" => c14::run(&args),
        "C15" => c15::run(&args),
        "c15-child" => c15::child(&args),
        "c15-replay" => c15::replay_child(&args),
        other => panic!("vh-node does not serve {other}"),
    }
}
