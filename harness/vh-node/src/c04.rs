//! C04 — pruning is authenticated and scoped to the prune operation's own log.
//!
//! Conservation oracle over raw dumps of `operations_v1` taken before and after every adversarial
//! operation: entries disappear only as the effect of an *authentic* prune-flagged operation that
//! the pipeline accepted (or that is already stored), and then exactly the entries of its own
//! (author, log) with a smaller sequence number; nothing else is ever deleted, nothing but the
//! operation itself is ever added.
//!
//! Stage `level=pipeline` drives the real `Pipeline` (cfg-exported) for volume; stage `level=node`
//! drives a real `Node` through `import` (the same path sync uses), `publish`/`prune` and a replay
//! from `StreamFrom::Start`.

use std::collections::BTreeSet;
use std::time::Duration;

use futures_util::StreamExt;
use p2panda::operation::{Extensions, LogId, Operation};
use p2panda::processor::Event;
use p2panda::processor::verif::{Pipeline, TaskTracker};
use p2panda::streams::{StreamEvent, StreamFrom};
use p2panda_core::{Hash, SigningKey, Topic};
use p2panda_store::SqliteStore;
use p2panda_store::sqlite::SqliteStoreBuilder;
use vh_common::{Args, Report, Rng, json};

use crate::common::{HonestLog, Row_, cbor_string, dump_ops, log_id_hex, sign_op, topic_from, unsigned_header};

#[derive(Clone, Debug)]
struct Adv {
    op: Operation,
    /// Signed by the key of the author it claims, over its final header.
    authentic: bool,
    kind: String,
}

fn gen_adversarial(rng: &mut Rng, topic: Topic, victims: &mut [HonestLog], heights: &[u32], stored: &[Vec<Operation>]) -> Adv {
    let v = rng.usize_below(victims.len());
    let height = heights[v]; // number of ops the victim has ingested (next seq)
    let attacker = SigningKey::from_bytes(&rng.array32());
    let seq_choices = [0u32, height / 2, height.saturating_sub(1), height, height + 1, height + 3, u32::MAX];
    let seq = *rng.pick(&seq_choices);
    let prune = rng.chance(0.75);
    let body = if rng.bool() { Some(cbor_string("adv")) } else { None };
    let right_backlink = if seq > 0 && (seq as usize) <= stored[v].len() { Some(stored[v][seq as usize - 1].hash) } else { None };
    let backlink = if seq == 0 {
        None
    } else {
        match rng.below(3) {
            0 => right_backlink.or(Some(Hash::digest(rng.bytes(8)))),
            1 => Some(Hash::digest(rng.bytes(8))),
            _ => right_backlink.or(Some(Hash::digest(b"x"))),
        }
    };
    match rng.below(10) {
        // A stored operation of the victim re-delivered with its id (`hash` field), key and
        // signature kept but the header altered (prune flag set, higher seq): the signature no
        // longer covers the header, and the caller-supplied id no longer matches it.
        8 | 9 => {
            let donor = stored[v][rng.usize_below(stored[v].len())].clone();
            let mut op = donor.clone();
            let new_seq = *rng.pick(&[height, height + 1, height + 5, 1000, u32::MAX]);
            op.header.seq_num = new_seq;
            if op.header.backlink.is_none() && new_seq > 0 {
                op.header.backlink = Some(Hash::digest(b"b"));
            }
            op.header.extensions = op.header.extensions.clone().set_prune_flag(true);
            // keep op.hash = donor.hash (stale id) in half of the cases, recompute otherwise
            let stale = rng.bool();
            if !stale {
                op.hash = op.header.hash();
            }
            Adv { op, authentic: false, kind: format!("stored-op-altered-header(stale_id={stale},seq={new_seq},height={height})") }
        }
        // Forged: claims the victim, not signed by the victim.
        0 | 1 | 2 | 3 => {
            let mut header = unsigned_header(victims[v].author(), topic, seq, backlink, body.as_deref(), prune);
            let how = rng.below(3);
            match how {
                0 => {
                    // Signed by the attacker's key but claiming the victim's identity.
                    header.sign(&attacker);
                }
                1 => {
                    // Valid signature of the victim over a *different* header, transplanted.
                    let donor = &stored[v][rng.usize_below(stored[v].len())];
                    header.signature = donor.header.signature;
                }
                _ => {
                    header.signature = Some(p2panda_core::Signature::from_bytes(&{
                        let mut b = [0u8; 64];
                        b.copy_from_slice(&rng.bytes(64));
                        b
                    }));
                }
            }
            let op = Operation { hash: header.hash(), header, body: body.as_deref().map(p2panda_core::Body::new) };
            Adv { op, authentic: false, kind: format!("forged(sig={how},seq={},height={height},prune={prune})", seq) }
        }
        // Valid prune by a third author on its own (new) log for the same topic.
        4 => {
            let op = sign_op(&attacker, topic, seq.min(5), if seq.min(5) == 0 { None } else { Some(Hash::digest(b"p")) }, body.as_deref(), prune);
            Adv { op, authentic: true, kind: format!("third-author(seq={},prune={prune})", seq.min(5)) }
        }
        // Honest prune by the victim itself, in order.
        5 => {
            let op = victims[v].next(body.as_deref(), true);
            Adv { op, authentic: true, kind: "victim-prune-in-order".into() }
        }
        // Authentic prune by the victim with a missing prefix (allowed by prune semantics).
        6 => {
            let s = height + 1 + rng.below(3) as u32;
            let op = sign_op(&victims[v].key, topic, s, Some(Hash::digest(b"gap")), body.as_deref(), true);
            Adv { op, authentic: true, kind: format!("victim-prune-gap(seq={s},height={height})") }
        }
        // Authentic but invalid (no prune flag, wrong position) by the victim.
        _ => {
            let s = height + 2;
            let op = sign_op(&victims[v].key, topic, s, Some(Hash::digest(b"gap")), body.as_deref(), false);
            Adv { op, authentic: true, kind: format!("victim-gap-no-prune(seq={s},height={height})") }
        }
    }
}

/// The conservation oracle. Returns (signature, explanation) on refutation.
fn judge(before: &[Row_], after: &[Row_], adv: &Adv, topic: Topic, accepted: bool) -> Option<(String, String)> {
    let b: BTreeSet<&Row_> = before.iter().collect();
    let a: BTreeSet<&Row_> = after.iter().collect();
    let deleted: Vec<&&Row_> = b.difference(&a).collect();
    let added: Vec<&&Row_> = a.difference(&b).collect();
    let op_hash = adv.op.hash.to_hex();
    let op_author = adv.op.header.verifying_key.to_hex();
    let op_log = log_id_hex(topic);
    let op_seq = adv.op.header.seq_num;
    let is_prune = adv.op.header.extensions.prune_flag().is_set();
    let already_stored = before.iter().any(|r| r.hash == op_hash);

    for r in &added {
        if r.hash != op_hash {
            return Some(("C04:foreign-entry-added".into(), format!("an entry other than the processed operation appeared: {r:?}")));
        }
        if !adv.authentic {
            return Some(("C04:unauthentic-operation-stored".into(), format!("an operation not signed by its claimed author was stored ({})", adv.kind)));
        }
    }
    if !deleted.is_empty() {
        if !adv.authentic {
            return Some((
                "C04:unauthentic-operation-deleted-entries".into(),
                format!("{} entries were deleted by an operation that is not signed by its claimed author ({}), e.g. {:?}", deleted.len(), adv.kind, deleted[0]),
            ));
        }
        if !is_prune {
            return Some(("C04:non-prune-operation-deleted-entries".into(), format!("{} entries deleted by an operation without prune flag ({})", deleted.len(), adv.kind)));
        }
        if !accepted && !already_stored {
            return Some(("C04:rejected-operation-deleted-entries".into(), format!("{} entries deleted although the operation failed processing ({})", deleted.len(), adv.kind)));
        }
        for r in &deleted {
            if r.author != op_author || r.log != op_log || r.seq >= op_seq {
                return Some(("C04:prune-out-of-scope".into(), format!("prune at seq {op_seq} of ({op_author},{op_log}) deleted {r:?}")));
            }
        }
    }
    if is_prune && adv.authentic && accepted {
        // Exactly the smaller entries of its own log must be gone.
        for r in after {
            if r.author == op_author && r.log == op_log && r.seq < op_seq {
                return Some(("C04:prune-incomplete".into(), format!("accepted prune at seq {op_seq} left {r:?} in place")));
            }
        }
    }
    None
}

async fn pipeline_case(seed: u64, case: u64, rep: &mut Report) {
    let mut rng = Rng::fork(seed, case);
    let store: SqliteStore = SqliteStoreBuilder::memory().build().await.expect("store");
    let tasks: TaskTracker<Event<LogId, Extensions, Topic>, Hash> = TaskTracker::new();
    let pipeline = Pipeline::<LogId, Extensions, Topic>::new(store.clone(), tasks);
    let topic = topic_from(&mut rng);
    let nv = 2 + rng.usize_below(2);
    let mut victims: Vec<HonestLog> = (0..nv).map(|_| HonestLog::new(&mut rng, topic)).collect();
    let mut stored: Vec<Vec<Operation>> = vec![Vec::new(); nv];
    for (i, v) in victims.iter_mut().enumerate() {
        for k in 0..(3 + rng.usize_below(6)) {
            let op = v.next(Some(&cbor_string(&format!("v{i} {k}"))), false);
            let ev = pipeline.process(Event::verif_new(op.clone(), LogId::from_topic(topic), topic, false.into())).await;
            assert!(ev.is_completed(), "honest setup op must complete: {:?}", ev.failure_reason().map(|e| e.to_string()));
            stored[i].push(op);
        }
    }
    let n_adv = 2 + rng.usize_below(4);
    for step in 0..n_adv {
        let heights: Vec<u32> = victims.iter().map(|v| v.next_seq).collect();
        let adv = gen_adversarial(&mut rng, topic, &mut victims, &heights, &stored);
        let before = dump_ops(&store).await;
        let prune = adv.op.header.extensions.prune_flag();
        let ev = pipeline.process(Event::verif_new(adv.op.clone(), LogId::from_topic(topic), topic, prune)).await;
        let after = dump_ops(&store).await;
        let accepted = ev.is_completed();
        let below = before.iter().filter(|r| r.author == adv.op.header.verifying_key.to_hex() && r.seq < adv.op.header.seq_num).count();
        let nontrivial = prune.is_set() && !adv.authentic && below >= 2;
        rep.case(if nontrivial { Some((adv.kind.clone(), below)) } else { None });
        rep.bump(if accepted { "accepted_operations" } else { "rejected_operations" }, 1);
        rep.bump("entries_deleted_total", before.len().saturating_sub(after.len()) as u64);
        if let Some((sig, what)) = judge(&before, &after, &adv, topic, accepted) {
            rep.violation(&sig, what, json!({"seed": seed, "case": case, "step": step, "level": "pipeline", "kind": adv.kind, "operation_hash": adv.op.hash.to_hex(), "claimed_author": adv.op.header.verifying_key.to_hex(), "seq_num": adv.op.header.seq_num, "entries_before": before.len(), "entries_after": after.len(), "status": format!("completed={accepted} failure={:?}", ev.failure_reason().map(|e| e.to_string()))}));
        }
        if case == 0 && step < 2 {
            rep.sample(json!({"level": "pipeline", "kind": adv.kind, "entries_before": before.len(), "entries_after": after.len(), "accepted": accepted}));
        }
        // Keep the model of stored victim ops in sync for honest in-order prunes.
        if adv.kind == "victim-prune-in-order" && accepted {
            for (i, v) in victims.iter().enumerate() {
                if v.author() == adv.op.header.verifying_key {
                    stored[i].push(adv.op.clone());
                }
            }
        }
    }
}

async fn wait_import_end(rx: &mut tokio::sync::mpsc::UnboundedReceiver<String>) -> bool {
    loop {
        match tokio::time::timeout(Duration::from_secs(30), rx.recv()).await {
            Ok(Some(s)) if s == "ImportEnded" => return true,
            Ok(Some(_)) => continue,
            _ => return false,
        }
    }
}

async fn node_case(seed: u64, case: u64, rep: &mut Report) {
    let mut rng = Rng::fork(seed ^ 0x0404, case);
    let dir = tempfile::tempdir().expect("tempdir");
    let url = format!("sqlite://{}/db.sqlite?mode=rwc", dir.path().display());
    let store = SqliteStoreBuilder::new().database_url(&url).max_connections(4).build().await.expect("store");
    let node = match p2panda::Node::builder().mdns_mode(p2panda::network::MdnsDiscoveryMode::Disabled).database_pool(store.pool().clone()).spawn().await {
        Ok(n) => n,
        Err(e) => {
            rep.inconclusive(format!("node spawn failed: {e}"));
            return;
        }
    };
    let topic = topic_from(&mut rng);
    let (tx, mut sub) = match node.stream::<String>(topic).await { Ok(x) => x, Err(e) => { rep.inconclusive(format!("node.stream failed: {e}")); return; } };
    // Drain the subscription in its own task (16-slot back-pressure) and forward event kinds.
    let (ev_tx, mut ev_rx) = tokio::sync::mpsc::unbounded_channel::<String>();
    let drain = tokio::spawn(async move {
        while let Some(ev) = sub.next().await {
            let kind = match &ev {
                StreamEvent::Processed { .. } => "Processed",
                StreamEvent::ImportStarted { .. } => "ImportStarted",
                StreamEvent::ImportEnded { .. } => "ImportEnded",
                StreamEvent::ProcessingFailed { .. } => "ProcessingFailed",
                StreamEvent::ReplayStarted { .. } => "ReplayStarted",
                StreamEvent::ReplayEnded => "ReplayEnded",
                _ => "Other",
            };
            if ev_tx.send(kind.to_string()).is_err() {
                break;
            }
        }
    });

    let nv = 2usize;
    let mut victims: Vec<HonestLog> = (0..nv).map(|_| HonestLog::new(&mut rng, topic)).collect();
    let mut stored: Vec<Vec<Operation>> = vec![Vec::new(); nv];
    let mut honest = Vec::new();
    for (i, v) in victims.iter_mut().enumerate() {
        for k in 0..(3 + rng.usize_below(4)) {
            let op = v.next(Some(&cbor_string(&format!("v{i} {k}"))), false);
            stored[i].push(op.clone());
            honest.push(op);
        }
    }
    if let Err(e) = tx.import(futures_util::stream::iter(honest)).await { rep.inconclusive(format!("import failed: {e}")); return; }
    if !wait_import_end(&mut ev_rx).await {
        rep.inconclusive("node: honest import did not end within the watchdog");
        return;
    }
    // Local honest publishes (own log of the node).
    for k in 0..2 {
        let fut = match tx.publish(format!("local {k}")).await { Ok(f) => f, Err(e) => { rep.inconclusive(format!("publish failed: {e}")); return; } };
        let _ = tokio::time::timeout(Duration::from_secs(30), fut).await;
    }

    for step in 0..3 {
        let heights: Vec<u32> = victims.iter().map(|v| v.next_seq).collect();
        let adv = gen_adversarial(&mut rng, topic, &mut victims, &heights, &stored);
        let before = dump_ops(&store).await;
        if let Err(e) = tx.import(futures_util::stream::iter(vec![adv.op.clone()])).await { rep.inconclusive(format!("import failed: {e}")); return; }
        if !wait_import_end(&mut ev_rx).await {
            rep.inconclusive("node: adversarial import did not end within the watchdog");
            return;
        }
        let after = dump_ops(&store).await;
        let accepted = after.iter().any(|r| r.hash == adv.op.hash.to_hex());
        let below = before.iter().filter(|r| r.author == adv.op.header.verifying_key.to_hex() && r.seq < adv.op.header.seq_num).count();
        let nontrivial = adv.op.header.extensions.prune_flag().is_set() && !adv.authentic && below >= 2;
        rep.case(if nontrivial { Some((adv.kind.clone(), below, "node")) } else { None });
        if let Some((sig, what)) = judge(&before, &after, &adv, topic, accepted) {
            rep.violation(&sig, what, json!({"seed": seed, "case": case, "step": step, "level": "node-import", "kind": adv.kind, "claimed_author": adv.op.header.verifying_key.to_hex(), "seq_num": adv.op.header.seq_num, "entries_before": before.len(), "entries_after": after.len()}));
        }
        if adv.kind == "victim-prune-in-order" && accepted {
            for (i, v) in victims.iter().enumerate() {
                if v.author() == adv.op.header.verifying_key {
                    stored[i].push(adv.op.clone());
                }
            }
        }
    }

    // Honest local prune: only the node's own log may shrink.
    {
        let before = dump_ops(&store).await;
        let me = node.id().to_hex();
        let fut = match tx.prune(Some("pruned".to_string())).await { Ok(f) => f, Err(e) => { rep.inconclusive(format!("prune failed: {e}")); return; } };
        let _ = tokio::time::timeout(Duration::from_secs(30), fut).await;
        let after = dump_ops(&store).await;
        let b: BTreeSet<&Row_> = before.iter().collect();
        let a: BTreeSet<&Row_> = after.iter().collect();
        for r in b.difference(&a) {
            if r.author != me {
                rep.violation("C04:local-prune-out-of-scope", format!("local prune deleted a foreign entry {r:?}"), json!({"seed": seed, "case": case, "level": "node-prune"}));
            }
        }
        rep.case(None::<()>);
    }

    // Replay from the start: every stored operation runs through the pipeline again; nothing that
    // is not below an authentic stored prune point of its own log may disappear.
    drop(tx);
    drain.abort();
    // A fresh node on the same database: re-opening a topic on the same node right after its
    // stream handles were dropped races with the asynchronous clean-up of the sync handle.
    drop(node);
    let node = match p2panda::Node::builder().mdns_mode(p2panda::network::MdnsDiscoveryMode::Disabled).database_pool(store.pool().clone()).spawn().await {
        Ok(n) => n,
        Err(e) => {
            rep.inconclusive(format!("node re-spawn failed: {e}"));
            return;
        }
    };
    let before = dump_ops(&store).await;
    let (tx2, mut sub2) = match node.stream_from::<String>(topic, StreamFrom::Start).await { Ok(x) => x, Err(e) => { rep.inconclusive(format!("stream_from failed: {e}")); return; } };
    let fut = match tx2.publish("sentinel".to_string()).await { Ok(f) => f, Err(e) => { rep.inconclusive(format!("sentinel publish failed: {e}")); return; } };
    let sentinel_hash = fut.hash();
    let mut seen_sentinel = false;
    let deadline = tokio::time::Instant::now() + Duration::from_secs(60);
    while let Ok(Some(ev)) = tokio::time::timeout_at(deadline, sub2.next()).await {
        if let StreamEvent::Processed { operation, .. } = &ev {
            if operation.id() == sentinel_hash {
                seen_sentinel = true;
                break;
            }
        }
    }
    if !seen_sentinel {
        rep.inconclusive("node: replay sentinel not observed within the watchdog");
        return;
    }
    let after = dump_ops(&store).await;
    let b: BTreeSet<&Row_> = before.iter().collect();
    let a: BTreeSet<&Row_> = after.iter().collect();
    for r in b.difference(&a) {
        let covered = before.iter().any(|p| p.prune && p.author == r.author && p.log == r.log && p.seq > r.seq);
        if !covered {
            rep.violation("C04:replay-deleted-entries", format!("replay from Start deleted {r:?} without a stored prune point above it"), json!({"seed": seed, "case": case, "level": "node-replay"}));
        }
    }
    rep.case(None::<()>);
    rep.bump("node_cases", 1);
}

pub fn run(args: &Args) {
    let mut rep = Report::new(
        args,
        "per case: 2-3 victim logs of 3-8 honest operations, then 2-5 adversarial operations, each \
         judged by the conservation oracle on raw table dumps: forged operations claiming a victim \
         (signed by another key / transplanted valid signature / random signature) x seq in {0, mid, \
         height-1, height, height+1, height+3, u32::MAX} x prune flag x right/wrong backlink; authentic \
         prunes by a third author, by the victim in order and with a missing prefix; authentic invalid \
         ones. level=pipeline drives the real Pipeline, level=node a real Node via import / publish / \
         prune / replay-from-Start. Non-trivial = the operation is prune-flagged, not authentic, and the \
         claimed log holds >= 2 entries below its seq; distinct by (kind, entries below).",
        if args.param("level") == Some("node") { 2 } else { 10 },
    );
    let level = args.param("level").unwrap_or("pipeline").to_string();
    let rt = tokio::runtime::Builder::new_multi_thread().worker_threads(4).enable_all().build().expect("rt");
    rt.block_on(async {
        if level == "pipeline" {
            let n = args.n(600, 12000);
            let (shard, shards) = args.param("shard").and_then(|s| s.split_once('/')).map(|(a, b)| (a.parse::<u64>().unwrap_or(0), b.parse::<u64>().unwrap_or(1).max(1))).unwrap_or((0, 1));
            for c in (0..n).filter(|c| c % shards == shard) {
                pipeline_case(args.seed, c, &mut rep).await;
            }
        } else {
            let n = args.n(16, 200);
            for c in 0..n {
                node_case(args.seed, c, &mut rep).await;
            }
        }
    });
    rep.finish(args);
}
