//! Harness over the SQLite store and the ingest step built on it.
//!
//! C01 (ingest-level part) tampered / arbitrary operations vs a reference validator + table dumps,
//! C03 chain invariants over delivery histories, C05 pruned prefixes never come back,
//! C08 `LogStore` command machine vs model (+ valgrind), C09 operation/topic/cursor stores vs
//! abstract collections (+ valgrind).

mod c01;
mod c08;
mod c09;
mod common;
mod conc;
mod hist;
mod par;

use vh_common::Args;

fn main() {
    let args = Args::parse();
    match args.prop.as_str() {
        "C01" => c01::run(&args),
        "C03" if args.param("mode") == Some("concurrent") => conc::run(&args, hist::Mode::C03),
        "C05" if args.param("mode") == Some("concurrent") => conc::run(&args, hist::Mode::C05),
        "C03" => hist::run(&args, hist::Mode::C03),
        "C05" => hist::run(&args, hist::Mode::C05),
        "C08" => c08::run(&args),
        "C09" => c09::run(&args),
        other => panic!("vh-store does not serve {other}"),
    }
}
