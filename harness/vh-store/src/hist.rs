//! C03 / C05: delivery histories through the real `ingest_operation` (+ the `prune_entries` step
//! the pipeline issues after a completed ingest of a prune-flagged operation), observed through
//! `LogStore::get_log_entries` / `get_log_heights` after every delivery.
//!
//! C03 judges: unique ascending seqs, every stored non-prune entry with seq > 0 backlinks to the
//! stored entry directly before it, heights never decrease, non-extending operations are rejected
//! (acceptance of operations *without* prune flag is compared with a small reference log model;
//! acceptance of prune-flagged operations is left to C05), rejected operations leave no entry.
//! C05 judges only: after a prune-flagged operation at seq N was ingested, no entry with seq < N is
//! stored in that log at any later observation.

use std::collections::{BTreeMap, HashSet, VecDeque};

use p2panda_core::{Hash, Operation, Signature, SigningKey, VerifyingKey};
use p2panda_store::SqliteStore;
use vh_common::{Args, Report, Rng, json, permutations, quiet_panics};

use crate::par::{Local, run_cases};

use crate::common::*;

#[derive(Clone, Copy, PartialEq, Eq, Debug)]
pub enum Mode {
    C03,
    C05,
}

const RULE_C03: &str = "Histories: 2-3 honest authors x 1-2 logs x 3-10 operations with 0-3 prune points (extension = \
(log id, prune flag)), delivered in perturbed order (in-order interleaving with random swaps, full \
shuffles, prune-segments reversed) with duplicates, dropped operations, forged copies (signature bit \
flip, seq/backlink altered under the old signature, re-signed by an attacker key) and author-signed \
malformed continuations (seq gap with a correct-looking backlink; correct seq with a wrong backlink). \
Small single-log histories (<= 6 deliveries) are delivered in every permutation. After every delivery \
the touched log (every 4th delivery: all logs) is read back. Non-trivial = history has >= 1 out-of-order \
delivery, >= 1 rejected and >= 1 accepted operation; distinct = sequence of (author, log, seq, kind, outcome).";

const RULE_C05: &str = "Histories: logs of 5-12 operations with 2-4 prune points, segments between prune points \
delivered in permuted (biased to reversed) order, plus duplicates, late single prune-flagged \
operations and, right after a prune point was applied (60 %), 1-4 rogue operations signed by the \
log's own author (seq in {tip-1, tip, below the prune point}, flagged or not, backlink = tip / another \
stored entry / the pruned true predecessor / random); small logs (<= 6 deliveries) in every permutation. After each delivery (ingest, then \
prune_entries when the ingest of a prune-flagged operation completed) the log is read back. \
Non-trivial = an older prune-flagged operation is delivered after a newer prune point was applied; \
distinct = sequence of (author, log, seq, kind, outcome).";

#[derive(Clone, Copy, PartialEq, Eq, Debug, Hash)]
enum Kind {
    Honest,
    Dup,
    ForgedSig,
    ForgedSeq,
    ForgedBacklink,
    ForgedResign,
    AuthorGap,
    AuthorBadBacklink,
    /// C05 only: operation signed by the log's own author (who thereby equivocates) at a seq at or
    /// below the tip, crafted against the stored state right after a prune point was applied.
    RogueUnflagged,
    RogueFlagged,
}

#[derive(Clone)]
struct Item {
    op: Operation<ExtS>,
    kind: Kind,
    /// Index of the (author, log) stream this item belongs to in generation order (for "in order").
    stream: usize,
}

struct History {
    authors: Vec<SigningKey>,
    attacker: SigningKey,
    logs: Vec<u64>,
    items: Vec<Item>,
    file_db: bool,
}

#[derive(Clone)]
struct MEntry {
    hash: Hash,
}

#[derive(Default)]
struct Model {
    logs: BTreeMap<([u8; 32], u64), BTreeMap<u32, MEntry>>,
    stored: HashSet<Hash>,
}

enum Expect {
    Extends,
    Exists,
    Reject(&'static str),
    PruneFlagged,
}

impl Model {
    fn expect(&self, op: &Operation<ExtS>) -> Expect {
        if let Err(w) = ref_format(op) {
            return Expect::Reject(w);
        }
        if op.header.extensions.prune {
            return Expect::PruneFlagged;
        }
        if self.stored.contains(&op.hash) {
            return Expect::Exists;
        }
        let h = &op.header;
        let latest = self
            .logs
            .get(&(*h.verifying_key.as_bytes(), h.extensions.log))
            .and_then(|l| l.iter().next_back());
        match latest {
            None if h.seq_num == 0 => Expect::Extends,
            None => Expect::Reject("missing-prefix"),
            Some((s, e)) => {
                if s.checked_add(1) != Some(h.seq_num) {
                    Expect::Reject("non-incremental-seq")
                } else if h.backlink != Some(e.hash) {
                    Expect::Reject("wrong-backlink")
                } else {
                    Expect::Extends
                }
            }
        }
    }

    fn insert(&mut self, op: &Operation<ExtS>) {
        self.stored.insert(op.hash);
        self.logs
            .entry((*op.header.verifying_key.as_bytes(), op.header.extensions.log))
            .or_default()
            .insert(op.header.seq_num, MEntry { hash: op.hash });
    }

    fn prune(&mut self, op: &Operation<ExtS>) {
        if let Some(l) = self
            .logs
            .get_mut(&(*op.header.verifying_key.as_bytes(), op.header.extensions.log))
        {
            let keep = l.split_off(&op.header.seq_num);
            for e in l.values() {
                self.stored.remove(&e.hash);
            }
            *l = keep;
        }
    }
}

fn forged_copies(rng: &mut Rng, op: &Operation<ExtS>, attacker: &SigningKey, stream: usize) -> Option<Item> {
    let mut m = op.clone();
    let kind = match rng.below(4) {
        0 => {
            let mut s = m.header.signature.expect("signed").to_bytes();
            let (i, bit) = (rng.usize_below(64), rng.below(8) as u8);
            flip_bit(&mut s, i, bit);
            m.header.signature = Some(Signature::from_bytes(&s));
            Kind::ForgedSig
        }
        1 => {
            m.header.seq_num = m.header.seq_num.wrapping_add(1 + rng.below(2) as u32);
            Kind::ForgedSeq
        }
        2 => {
            m.header.backlink = Some(Hash::digest(rng.bytes(8)));
            Kind::ForgedBacklink
        }
        _ => {
            m.header.verifying_key = attacker.verifying_key();
            m.header.sign(attacker);
            Kind::ForgedResign
        }
    };
    m.hash = m.header.hash();
    Some(Item {
        op: m,
        kind,
        stream,
    })
}

fn prune_points(rng: &mut Rng, n: usize, count: usize) -> Vec<u32> {
    let mut c: Vec<u32> = (1..n as u32).collect();
    rng.shuffle(&mut c);
    c.truncate(count.min(c.len()));
    c.sort();
    c
}

fn gen_history(rng: &mut Rng, mode: Mode, small: bool, case: u64) -> History {
    let attacker = key(rng);
    let (na, nl) = if small {
        (1, 1)
    } else if mode == Mode::C05 {
        (1 + rng.usize_below(2), 1 + rng.usize_below(2))
    } else {
        (2 + rng.usize_below(2), 1 + rng.usize_below(2))
    };
    let authors: Vec<SigningKey> = (0..na).map(|_| key(rng)).collect();
    let logs: Vec<u64> = (0..nl as u64).map(|l| l * 7 + rng.below(3)).collect();
    let mut streams: Vec<Vec<Item>> = Vec::new();
    // The attacker must not equivocate either: at most one re-signed copy per (log, seq).
    let mut attacker_used: HashSet<(u64, u32)> = HashSet::new();
    for a in &authors {
        for l in &logs {
            let stream = streams.len();
            let (n, np) = match (mode, small) {
                (Mode::C03, true) => (3 + rng.usize_below(2), rng.usize_below(2)),
                (Mode::C03, false) => (3 + rng.usize_below(8), rng.usize_below(4)),
                (Mode::C05, true) => (4 + rng.usize_below(2), 2),
                (Mode::C05, false) => (5 + rng.usize_below(8), 2 + rng.usize_below(3)),
            };
            let pp = prune_points(rng, n, np);
            let ops: Vec<Operation<ExtS>> = build_log(rng, a, *l, n, &pp);
            let mut items: Vec<Item> = Vec::new();
            let mut extra_budget = if small { 6 - n.min(6) } else { usize::MAX };
            for op in &ops {
                let drop = !small && mode == Mode::C03 && rng.chance(0.08);
                if !drop {
                    items.push(Item {
                        op: op.clone(),
                        kind: Kind::Honest,
                        stream,
                    });
                }
                if extra_budget > 0 && rng.chance(if small { 0.3 } else { 0.15 }) {
                    items.push(Item {
                        op: op.clone(),
                        kind: Kind::Dup,
                        stream,
                    });
                    extra_budget -= 1;
                }
                if mode == Mode::C03 && extra_budget > 0 && rng.chance(if small { 0.3 } else { 0.2 }) {
                    if let Some(f) = forged_copies(rng, op, &attacker, stream) {
                        if f.kind != Kind::ForgedResign || attacker_used.insert((*l, f.op.header.seq_num)) {
                            items.push(f);
                            extra_budget -= 1;
                        }
                    }
                }
            }
            if mode == Mode::C03 && extra_budget > 0 && rng.chance(0.6) {
                let last = ops.last().expect("non-empty log");
                let n32 = n as u32;
                if rng.bool() {
                    items.push(Item {
                        op: build_op(a, n32 + 1, Some(last.hash), Some(b"gap"), ExtS::make(*l, false)),
                        kind: Kind::AuthorGap,
                        stream,
                    });
                } else {
                    let wrong = if n >= 2 { ops[n - 2].hash } else { Hash::digest(b"wrong") };
                    items.push(Item {
                        op: build_op(a, n32, Some(wrong), Some(b"badlink"), ExtS::make(*l, false)),
                        kind: Kind::AuthorBadBacklink,
                        stream,
                    });
                }
            }
            streams.push(items);
        }
    }

    // Delivery order.
    let mut items: Vec<Item> = Vec::new();
    match mode {
        Mode::C03 => {
            // In-order interleaving of the streams ...
            let mut idx = vec![0usize; streams.len()];
            loop {
                let live: Vec<usize> = (0..streams.len()).filter(|s| idx[*s] < streams[*s].len()).collect();
                if live.is_empty() {
                    break;
                }
                let s = *rng.pick(&live);
                items.push(streams[s][idx[s]].clone());
                idx[s] += 1;
            }
            // ... then perturbed.
            match rng.below(20) {
                0 => {}
                1..=4 => rng.shuffle(&mut items),
                5..=8 => {
                    // Prune-flagged operations first, newest first.
                    let (mut pr, rest): (Vec<Item>, Vec<Item>) =
                        items.into_iter().partition(|i| i.op.header.extensions.prune && i.kind == Kind::Honest);
                    pr.sort_by_key(|i| std::cmp::Reverse(i.op.header.seq_num));
                    pr.extend(rest);
                    items = pr;
                }
                _ => {
                    let swaps = 1 + rng.usize_below(1 + items.len() / 3);
                    for _ in 0..swaps {
                        if items.len() < 2 {
                            break;
                        }
                        let i = rng.usize_below(items.len());
                        let d = 1 + rng.usize_below(3);
                        let j = (i + d).min(items.len() - 1);
                        items.swap(i, j);
                    }
                }
            }
        }
        Mode::C05 => {
            // Per stream: cut at the prune points, deliver the segments in a permuted order
            // (biased to newest first), each segment in order; then interleave the streams.
            let mut per_stream: Vec<Vec<Item>> = Vec::new();
            for s in &streams {
                let mut segs: Vec<Vec<Item>> = vec![Vec::new()];
                for it in s {
                    if it.op.header.extensions.prune && it.kind == Kind::Honest {
                        segs.push(Vec::new());
                    }
                    segs.last_mut().unwrap().push(it.clone());
                }
                match rng.below(10) {
                    0..=4 => segs.reverse(),
                    5..=8 => rng.shuffle(&mut segs),
                    _ => {}
                }
                let mut flat: Vec<Item> = segs.into_iter().flatten().collect();
                // Sometimes a lone older prune-flagged operation arrives (again) at the very end.
                if rng.chance(0.4) {
                    let olds: Vec<Item> = s
                        .iter()
                        .filter(|i| i.op.header.extensions.prune && i.kind == Kind::Honest)
                        .cloned()
                        .collect();
                    if olds.len() >= 2 {
                        let mut late = olds[rng.usize_below(olds.len() - 1)].clone();
                        late.kind = Kind::Dup;
                        flat.push(late);
                    }
                }
                per_stream.push(flat);
            }
            let mut idx = vec![0usize; per_stream.len()];
            loop {
                let live: Vec<usize> =
                    (0..per_stream.len()).filter(|s| idx[*s] < per_stream[*s].len()).collect();
                if live.is_empty() {
                    break;
                }
                let s = *rng.pick(&live);
                items.push(per_stream[s][idx[s]].clone());
                idx[s] += 1;
            }
        }
    }
    if small {
        items.truncate(6);
    }
    History {
        authors,
        attacker,
        logs,
        items,
        file_db: !small && case % 10 == 7,
    }
}

#[derive(Default)]
struct RunStats {
    accepted: u32,
    rejected: u32,
    out_of_order: bool,
    late_older_prune: bool,
    trace: Vec<(u8, u64, u32, Kind, &'static str)>,
}

struct Watch {
    /// Highest height ever observed per log.
    height: BTreeMap<([u8; 32], u64), u32>,
    /// C05: highest ingested prune point per log.
    prune_point: BTreeMap<([u8; 32], u64), u32>,
    /// Highest seq delivered so far per stream (for "out of order").
    max_delivered: BTreeMap<usize, u32>,
    /// Ids of the author-signed rogue operations crafted during this run (C05).
    rogue: HashSet<Hash>,
}

#[allow(clippy::too_many_arguments)]
async fn observe_log(
    rep: &mut Local,
    mode: Mode,
    store: &SqliteStore,
    model: &Model,
    watch: &mut Watch,
    vk: &VerifyingKey,
    log: u64,
    all_logs: &[u64],
    witness: &dyn Fn(&str) -> vh_common::Value,
) {
    let entries: Vec<Operation<ExtS>> = match log_entries(store, vk, log).await {
        Ok(e) => e,
        Err(e) => {
            rep.inconclusive(format!("get_log_entries failed while observing: {e}"));
            return;
        }
    };
    rep.bump("log_observations", 1);
    let k = (*vk.as_bytes(), log);

    if mode == Mode::C05 {
        if let Some(p) = watch.prune_point.get(&k) {
            if let Some(e) = entries.iter().find(|e| e.header.seq_num < *p) {
                let sig = match (watch.rogue.contains(&e.hash), e.header.extensions.prune) {
                    (true, true) => "C05:stored-below-prune-point:rogue-flagged-op",
                    (true, false) => "C05:stored-below-prune-point:rogue-unflagged-op",
                    (false, true) => "C05:stored-below-prune-point:older-prune-flagged-op",
                    (false, false) => "C05:stored-below-prune-point:unflagged-op",
                };
                rep.violation(
                    sig,
                    format!(
                        "entry seq {} is stored although a prune-flagged operation at seq {} was ingested for this log",
                        e.header.seq_num, p
                    ),
                    witness(&format!("seq {} < prune point {}", e.header.seq_num, p)),
                );
            }
        }
        return;
    }

    // C03 chain invariants.
    for w in entries.windows(2) {
        if w[1].header.seq_num <= w[0].header.seq_num {
            rep.violation(
                "C03:seq-not-unique-ascending",
                format!("stored seqs {} then {}", w[0].header.seq_num, w[1].header.seq_num),
                witness("seq order"),
            );
        }
    }
    for (i, e) in entries.iter().enumerate() {
        if e.header.seq_num > 0 && !e.header.extensions.prune {
            let pred = i.checked_sub(1).map(|j| &entries[j]);
            let ok = pred.is_some_and(|p| {
                p.header.seq_num + 1 == e.header.seq_num && Some(p.hash) == e.header.backlink
            });
            if !ok {
                let sig = match pred {
                    Some(p) if p.header.seq_num + 1 == e.header.seq_num => "C03:backlink-does-not-match-predecessor",
                    _ => "C03:predecessor-not-stored",
                };
                rep.violation(
                    sig,
                    format!("stored entry seq {} without prune flag is not linked to a stored predecessor", e.header.seq_num),
                    witness(&format!("entry seq {}", e.header.seq_num)),
                );
            }
        }
        if e.header.verifying_key != *vk || e.header.extensions.log != log {
            rep.violation(
                "C03:entry-in-foreign-log",
                "log query returned an entry whose header names another author/log",
                witness("foreign entry"),
            );
        }
    }
    // Height monotone (entries view and the heights query).
    let h_entries = entries.last().map(|e| e.header.seq_num);
    let h_query = match log_heights::<ExtS>(store, vk, all_logs).await {
        Ok(m) => m.get(&log).copied(),
        Err(e) => {
            rep.inconclusive(format!("get_log_heights failed while observing: {e}"));
            h_entries
        }
    };
    if h_entries != h_query {
        rep.bump("height_query_disagrees_with_entries", 1);
    }
    for (src, h) in [("entries", h_entries), ("heights-query", h_query)] {
        match (watch.height.get(&k).copied(), h) {
            (Some(prev), None) => rep.violation(
                "C03:height-decreased",
                format!("log height was {prev}, now the log is empty ({src})"),
                witness("height"),
            ),
            (Some(prev), Some(now)) if now < prev => rep.violation(
                "C03:height-decreased",
                format!("log height went from {prev} to {now} ({src})"),
                witness("height"),
            ),
            _ => {}
        }
    }
    if let Some(now) = h_entries.max(h_query) {
        let e = watch.height.entry(k).or_insert(now);
        *e = (*e).max(now);
    }
    // Rejected operations leave no entry / accepted ones are there.
    let want: Vec<Hash> = model
        .logs
        .get(&k)
        .map(|l| l.values().map(|e| e.hash).collect())
        .unwrap_or_default();
    let got: Vec<Hash> = entries.iter().map(|e| e.hash).collect();
    if want != got {
        let sig = if got.iter().any(|h| !want.contains(h)) {
            "C03:rejected-or-pruned-operation-stored"
        } else {
            "C03:accepted-operation-missing"
        };
        rep.violation(
            sig,
            "stored log differs from the log implied by the ingest outcomes",
            witness(&format!(
                "store={:?} outcomes={:?}",
                got.iter().map(short).collect::<Vec<_>>(),
                want.iter().map(short).collect::<Vec<_>>()
            )),
        );
    }
}

async fn run_history(
    rep: &mut Local,
    mode: Mode,
    store: &SqliteStore,
    hist: &History,
    order: &[usize],
    tag: &vh_common::Value,
) -> RunStats {
    let topic: TopicId = [7; 32];
    let mut model = Model::default();
    let mut watch = Watch {
        height: BTreeMap::new(),
        prune_point: BTreeMap::new(),
        max_delivered: BTreeMap::new(),
        rogue: HashSet::new(),
    };
    let mut st = RunStats::default();
    let mut rogue_rng = Rng::new(vh_common::hash_of(&tag.to_string()) ^ 0x0C05_0C05);
    let mut queue: VecDeque<Item> = order.iter().map(|&ix| hist.items[ix].clone()).collect();
    let mut step = 0usize;
    let mut vks: Vec<VerifyingKey> = hist.authors.iter().map(|a| a.verifying_key()).collect();
    vks.push(hist.attacker.verifying_key());
    let author_idx = |vk: &VerifyingKey| vks.iter().position(|v| v == vk).unwrap_or(255) as u8;

    while let Some(it) = queue.pop_front() {
        let it = &it;
        let op = &it.op;
        let h = &op.header;
        let k = (*h.verifying_key.as_bytes(), h.extensions.log);
        let expect = model.expect(op);

        if matches!(it.kind, Kind::Honest | Kind::Dup) {
            let m = watch.max_delivered.entry(it.stream).or_insert(h.seq_num);
            if h.seq_num < *m {
                st.out_of_order = true;
            }
            *m = (*m).max(h.seq_num);
        }
        if h.extensions.prune && watch.prune_point.get(&k).is_some_and(|p| h.seq_num < *p) {
            st.late_older_prune = true;
        }

        let out = ingest(store, op, &topic).await;
        rep.bump(&format!("ingest_{}", out.tag()), 1);
        let mut pruned = None;
        match &out {
            Outcome::Inserted => {
                st.accepted += 1;
                model.insert(op);
            }
            Outcome::Exists => st.accepted += 1,
            Outcome::Rejected(_) => st.rejected += 1,
            Outcome::Panicked(p) => {
                rep.bump("panics_observed", 1);
                rep.extra("first_panic", json!(p));
            }
        }
        if out.accepted() && h.extensions.prune {
            match prune_step(store, op).await {
                Ok(Ok(n)) => {
                    pruned = Some(n);
                    rep.bump("prune_steps", 1);
                    rep.bump("entries_pruned", n);
                    model.prune(op);
                    let p = watch.prune_point.entry(k).or_insert(h.seq_num);
                    *p = (*p).max(h.seq_num);
                    // C05: right after a prune point was applied, the log's author delivers rogue
                    // operations crafted against the stored state.
                    if mode == Mode::C05
                        && !matches!(it.kind, Kind::RogueFlagged | Kind::RogueUnflagged)
                        && rogue_rng.chance(0.6)
                    {
                        for r in craft_rogues(&mut rogue_rng, hist, &model, &watch, op, it.stream).into_iter().rev() {
                            watch.rogue.insert(r.op.hash);
                            rep.bump("rogue_ops_crafted", 1);
                            queue.push_front(r);
                        }
                    }
                }
                Ok(Err(e)) | Err(e) => rep.inconclusive(format!("prune_entries failed: {e}")),
            }
        }
        st.trace
            .push((author_idx(&h.verifying_key), h.extensions.log, h.seq_num, it.kind, out.tag()));

        let trace = &st.trace;
        let witness = |what: &str| {
            json!({
                "case": tag, "step": step, "what": what,
                "delivered": op_json(op), "kind": format!("{:?}", it.kind),
                "outcome": out.detail(), "pruned": pruned,
                "trace": trace.iter().map(|t| format!("a{} l{} s{} {:?} {}", t.0, t.1, t.2, t.3, t.4)).collect::<Vec<_>>(),
            })
        };

        if mode == Mode::C03 {
            match (&expect, &out) {
                (Expect::Reject(why), o) if o.accepted() => rep.violation(
                    &format!("C03:accepted-non-extending:{why}"),
                    format!("ingest returned {} for an operation that does not extend its log ({why}, {:?})", o.tag(), it.kind),
                    witness(why),
                ),
                (Expect::Extends, Outcome::Rejected(e)) => rep.violation(
                    "C03:rejected-valid-extension",
                    format!("a valid operation extending its log was rejected: {e}"),
                    witness("valid extension rejected"),
                ),
                (Expect::Extends, Outcome::Exists) | (Expect::Exists, Outcome::Inserted) => rep.violation(
                    "C03:duplicate-detection-disagrees",
                    "Ok(true)/Ok(false) does not match whether the operation was already stored",
                    witness("dedup"),
                ),
                (Expect::Exists, Outcome::Rejected(_)) => rep.bump("stored_duplicate_rejected", 1),
                _ => {}
            }
        }

        // Observe: the touched log every step, everything every 4th step and at the end.
        let full = step % 4 == 3 || queue.is_empty();
        if full {
            for vk in &vks {
                for l in &hist.logs {
                    observe_log(rep, mode, store, &model, &mut watch, vk, *l, &hist.logs, &witness).await;
                }
            }
        } else {
            observe_log(rep, mode, store, &model, &mut watch, &h.verifying_key, h.extensions.log, &hist.logs, &witness)
                .await;
        }
        step += 1;
    }
    st
}

/// Rogue operations by the author of `applied` (a prune point that was just ingested and applied):
/// seq in {tip-1, tip, anything below the highest applied prune point}, with or without prune flag,
/// backlink = hash of the tip / of another stored entry / of the true (possibly pruned) predecessor
/// / a random hash. All well-formed and correctly signed; none of them may end up below the prune
/// point.
fn craft_rogues(
    rng: &mut Rng,
    hist: &History,
    model: &Model,
    watch: &Watch,
    applied: &Operation<ExtS>,
    stream: usize,
) -> Vec<Item> {
    let vk = applied.header.verifying_key;
    let log = applied.header.extensions.log;
    let k = (*vk.as_bytes(), log);
    let Some(sk) = hist.authors.iter().find(|a| a.verifying_key() == vk) else {
        return Vec::new();
    };
    let Some(stored) = model.logs.get(&k) else {
        return Vec::new();
    };
    let Some((tip_seq, tip)) = stored.iter().next_back().map(|(s, e)| (*s, e.hash)) else {
        return Vec::new();
    };
    let p = watch.prune_point.get(&k).copied().unwrap_or(applied.header.seq_num);
    let others: Vec<Hash> = stored.values().map(|e| e.hash).filter(|h| *h != tip).collect();
    let mut out = Vec::new();
    let mut push = |rng: &mut Rng, seq: u32, flagged: bool, link: u64| {
        let backlink = if seq == 0 {
            None
        } else {
            Some(match link {
                0 => tip,
                1 => others.first().copied().unwrap_or(tip),
                2 => hist
                    .items
                    .iter()
                    .find(|i| {
                        i.kind == Kind::Honest
                            && i.op.header.verifying_key == vk
                            && i.op.header.extensions.log == log
                            && i.op.header.seq_num + 1 == seq
                    })
                    .map(|i| i.op.hash)
                    .unwrap_or(tip),
                _ => Hash::digest(rng.bytes(16)),
            })
        };
        let body = rng.bytes(12);
        out.push(Item {
            op: build_op(sk, seq, backlink, Some(&body), ExtS::make(log, flagged)),
            kind: if flagged { Kind::RogueFlagged } else { Kind::RogueUnflagged },
            stream,
        });
    };
    // The sharpest one: one below the tip, unflagged, linking to the tip itself.
    if tip_seq >= 1 && rng.bool() {
        push(rng, tip_seq - 1, false, 0);
    }
    for _ in 0..1 + rng.below(3) {
        let seq = match rng.below(3) {
            0 => tip_seq.saturating_sub(1),
            1 => tip_seq,
            _ => rng.below(p.max(1) as u64) as u32,
        };
        let (flagged, link) = (rng.bool(), rng.below(4));
        push(rng, seq, flagged, link);
    }
    out
}

fn close(rep: &mut Local, mode: Mode, st: &RunStats) {
    let nontrivial = match mode {
        Mode::C03 => st.out_of_order && st.accepted > 0 && st.rejected > 0,
        Mode::C05 => st.late_older_prune,
    };
    rep.bump("deliveries", st.trace.len() as u64);
    rep.case(nontrivial.then_some(&st.trace));
}

pub fn run(args: &Args, mode: Mode) {
    quiet_panics();
    let (rule, min) = match mode {
        Mode::C03 => (RULE_C03, 100),
        Mode::C05 => (RULE_C05, 60),
    };
    let mut rep = Report::new(args, rule, min);
    let histories = match mode {
        Mode::C03 => args.n(260, 12_000),
        Mode::C05 => args.n(260, 20_000),
    };
    let small_sets = args.n(2, 40);
    let tmp = tempfile::tempdir().expect("tempdir");
    let dir = tmp.path();
    run_cases(args, &mut rep, small_sets + histories, |rep, case, rt| {
        rt.block_on(async {
            if case < small_sets {
                // Every delivery order of a small single-log history, on one re-used store.
                let s = case;
                let store = SqliteStore::temporary().await;
                let mut rng = Rng::fork(args.seed ^ 0x5111, s);
                let hist = gen_history(&mut rng, mode, true, s);
                let n = hist.items.len();
                for (pi, p) in permutations(n).into_iter().enumerate() {
                    if let Err(e) = wipe(&store).await {
                        rep.inconclusive(format!("wipe failed: {e}"));
                    }
                    let tag = json!({"seed": args.seed, "small_set": s, "permutation": pi, "order": p});
                    let st = run_history(rep, mode, &store, &hist, &p, &tag).await;
                    close(rep, mode, &st);
                    rep.bump("small_history_orders_run", 1);
                }
                store.pool().close().await;
                return;
            }
            let c = case - small_sets;
            let mut rng = Rng::fork(args.seed, c);
            let hist = gen_history(&mut rng, mode, false, c);
            let path = dir.join(format!("h{c}.sqlite"));
            let store = new_store(hist.file_db.then_some(path.as_path())).await;
            if hist.file_db {
                rep.bump("histories_on_file_db", 1);
            }
            let order: Vec<usize> = (0..hist.items.len()).collect();
            let tag = json!({"seed": args.seed, "history": c, "file_db": hist.file_db});
            let st = run_history(rep, mode, &store, &hist, &order, &tag).await;
            if rep.want_sample() && c % 97 == 3 {
                rep.sample(json!({
                    "history": c,
                    "trace": st.trace.iter().map(|t| format!("a{} l{} s{} {:?} {}", t.0, t.1, t.2, t.3, t.4)).collect::<Vec<_>>(),
                }));
            }
            close(rep, mode, &st);
            store.pool().close().await;
            if hist.file_db {
                let _ = std::fs::remove_file(&path);
            }
        })
    });
    rep.extra("small_history_sets_all_permutations", json!(small_sets));
    rep.finish(args);
}
