//! Case-parallel execution: every case is generated from `Rng::fork(seed, case)` and runs against
//! its own store, so cases are distributed round-robin over a few OS threads (each with its own
//! current-thread tokio runtime; a SQLite call is a round trip to the connection's worker thread,
//! i.e. latency-bound). Each thread records into a `Local` with the same interface as
//! `vh_common::Report`; the locals are merged in thread order, so the merged record depends only
//! on (seed, thread count).

use std::collections::BTreeMap;
use std::hash::Hash;

use vh_common::{Args, Report, Value, hash_of, json};

#[derive(Default)]
pub struct Local {
    bumps: BTreeMap<String, u64>,
    extras: BTreeMap<String, Value>,
    violations: Vec<(String, String, Value)>,
    violation_counts: BTreeMap<String, u64>,
    cases: Vec<Option<u64>>,
    pub inconclusive: Vec<String>,
    samples: Vec<Value>,
}

impl Local {
    pub fn bump(&mut self, k: &str, by: u64) {
        *self.bumps.entry(k.to_string()).or_insert(0) += by;
    }

    pub fn extra(&mut self, k: &str, v: Value) {
        self.extras.entry(k.to_string()).or_insert(v);
    }

    pub fn violation(&mut self, signature: &str, what: impl Into<String>, witness: Value) {
        let c = self.violation_counts.entry(signature.to_string()).or_insert(0);
        *c += 1;
        if *c <= 3 {
            self.violations.push((signature.to_string(), what.into(), witness));
        }
    }

    pub fn case<K: Hash>(&mut self, nontrivial_key: Option<K>) {
        self.cases.push(nontrivial_key.map(|k| hash_of(&k)));
    }

    pub fn inconclusive(&mut self, why: impl Into<String>) {
        let w = why.into();
        if self.inconclusive.len() < 20 && !self.inconclusive.contains(&w) {
            self.inconclusive.push(w);
        }
    }

    pub fn want_sample(&self) -> bool {
        self.samples.len() < 2
    }

    pub fn sample(&mut self, v: Value) {
        if self.samples.len() < 2 {
            self.samples.push(v);
        }
    }
}

fn merge(rep: &mut Report, l: Local, totals: &mut BTreeMap<String, u64>) {
    for (k, v) in l.bumps {
        rep.bump(&k, v);
    }
    for (k, v) in l.extras {
        if !rep.extra.contains_key(&k) {
            rep.extra(&k, v);
        }
    }
    for (sig, what, w) in l.violations {
        rep.violation(&sig, what, w);
    }
    for c in l.cases {
        rep.case(c);
    }
    for i in l.inconclusive {
        rep.inconclusive(i);
    }
    for s in l.samples {
        rep.sample(s);
    }
    for (sig, n) in l.violation_counts {
        *totals.entry(sig).or_insert(0) += n;
    }
}

/// Run `cases` (numbers `0..cases`) on `threads` threads; `f(local, case, runtime)` evaluates one.
pub fn run_cases<F>(args: &Args, rep: &mut Report, cases: u64, f: F)
where
    F: Fn(&mut Local, u64, &tokio::runtime::Runtime) + Sync,
{
    let avail = std::thread::available_parallelism().map(|n| n.get() as u64).unwrap_or(4);
    let threads = args.param_u64("threads", avail.clamp(1, 8)).clamp(1, cases.max(1));
    let locals: Vec<Local> = std::thread::scope(|s| {
        let handles: Vec<_> = (0..threads)
            .map(|t| {
                let f = &f;
                s.spawn(move || {
                    let rt = crate::common::runtime();
                    let mut local = Local::default();
                    let mut c = t;
                    while c < cases {
                        f(&mut local, c, &rt);
                        if local.inconclusive.len() >= 10 {
                            break;
                        }
                        c += threads;
                    }
                    local
                })
            })
            .collect();
        handles.into_iter().map(|h| h.join().expect("worker thread")).collect()
    });
    // `rep.violation` counts only the witnesses the threads kept; restore the true totals.
    let mut totals = BTreeMap::new();
    for l in locals {
        merge(rep, l, &mut totals);
    }
    for (sig, n) in totals {
        rep.violation_counts.insert(sig, n);
    }
    rep.extra("threads", json!(threads));
}
