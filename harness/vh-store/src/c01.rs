//! C01 (ingest-level part): only authentic, well-formed operations pass
//! `p2panda_stream::ingest::ingest_operation` on a real `SqliteStore`, and a rejection leaves
//! `operations_v1` / `topics_v1` byte-identical.
//!
//! Oracle: reference validator written from the statement (`common::ref_format`: signature over
//! canonical unsigned bytes produced by the harness' own CBOR encoder, version, payload info,
//! backlink/seq consistency, body hash/size) plus the log position taken from a model of what the
//! harness itself got `Ok(true)` for.

use std::collections::{HashMap, HashSet};

use p2panda_core::cbor::decode_cbor;
use p2panda_core::{Body, Hash, Header, Operation, Signature, SigningKey, VerifyingKey};
use p2panda_store::SqliteStore;
use vh_common::{Args, Report, Rng, json, quiet_panics};

use crate::par::{Local, run_cases};

use crate::common::*;

const RULE: &str = "Valid logs (3-5 ops, extension types unit/struct/tuple) are built from seeded keys; the \
store holds ops 0..k-1 (phase A) or 0..k (phase B). Every mutant of op k is pushed through the real \
ingest_operation: each header field set to neighbour/zero/max/other-op values (kept signature and \
re-signed by the author), verifying key swapped / bit-flipped, signature dropped / every bit of 6 \
bytes flipped / borrowed / made by another key, body truncated / extended / flipped / dropped / \
attached / replaced, every bit of 6 bytes of the encoded header flipped and re-decoded; plus headers \
with arbitrary field combinations. Non-trivial = the mutant differs from the valid op in exactly one \
of {header field, signature, body, one wire byte} (or one field + a fresh valid signature) and the \
reference validator gives a definite verdict; distinct = (ext type, field, mutation kind, re-signed, \
seq class, phase).";

#[derive(Clone)]
struct Mutant<E> {
    field: &'static str,
    kind: String,
    resigned: bool,
    op: Operation<E>,
}

#[derive(Default)]
struct RefLogs {
    stored: HashSet<Hash>,
    latest: HashMap<([u8; 32], u64), (u32, Hash)>,
}

enum Expect {
    AcceptNew,
    AcceptExisting,
    Reject(&'static str),
    /// Prune-flagged operation at or below the stored height: C05's subject, not judged here.
    Unjudged,
}

impl RefLogs {
    fn expect<E: RefExt>(&self, op: &Operation<E>) -> Expect {
        if let Err(why) = ref_format(op) {
            return Expect::Reject(why);
        }
        if self.stored.contains(&op.hash) {
            return Expect::AcceptExisting;
        }
        let h = &op.header;
        let latest = self
            .latest
            .get(&(*h.verifying_key.as_bytes(), h.extensions.log()));
        if h.extensions.prune() && h.seq_num > 0 {
            return match latest {
                Some((s, _)) if h.seq_num <= *s => Expect::Unjudged,
                _ => Expect::AcceptNew,
            };
        }
        match latest {
            None if h.seq_num == 0 => Expect::AcceptNew,
            None => Expect::Reject("position"),
            Some((s, hash)) => {
                if s.checked_add(1) == Some(h.seq_num) && h.backlink == Some(*hash) {
                    Expect::AcceptNew
                } else {
                    Expect::Reject("position")
                }
            }
        }
    }

    fn insert<E: RefExt>(&mut self, op: &Operation<E>) {
        self.stored.insert(op.hash);
        let k = (
            *op.header.verifying_key.as_bytes(),
            op.header.extensions.log(),
        );
        let e = self.latest.entry(k).or_insert((op.header.seq_num, op.hash));
        if op.header.seq_num >= e.0 {
            *e = (op.header.seq_num, op.hash);
        }
    }
}

struct Gen<'a, E: RefExt> {
    base: &'a Operation<E>,
    sk: &'a SigningKey,
    out: Vec<Mutant<E>>,
}

impl<'a, E: RefExt> Gen<'a, E> {
    /// Header mutation, once with the original signature and once re-signed by the author.
    fn both(&mut self, field: &'static str, kind: &str, f: impl Fn(&mut Header<E>)) {
        let mut m = self.base.clone();
        f(&mut m.header);
        if m.header == self.base.header {
            return;
        }
        let mut keep = m.clone();
        keep.hash = keep.header.hash();
        self.out.push(Mutant {
            field,
            kind: kind.to_string(),
            resigned: false,
            op: keep,
        });
        resign(&mut m, self.sk);
        self.out.push(Mutant {
            field,
            kind: kind.to_string(),
            resigned: true,
            op: m,
        });
    }

    fn one(&mut self, field: &'static str, kind: String, op: Operation<E>) {
        self.out.push(Mutant {
            field,
            kind,
            resigned: false,
            op,
        });
    }
}

fn flip_positions(rng: &mut Rng, len: usize) -> Vec<usize> {
    let mut v = vec![0, len - 1];
    for _ in 0..4 {
        v.push(rng.usize_below(len));
    }
    v.sort();
    v.dedup();
    v
}

fn gen_mutants<E: RefExt>(
    rng: &mut Rng,
    ops: &[Operation<E>],
    k: usize,
    other: &[Operation<E>],
    ska: &SigningKey,
    skb: &SigningKey,
) -> Vec<Mutant<E>> {
    let base = &ops[k];
    let n = ops.len();
    let mut g = Gen {
        base,
        sk: ska,
        out: Vec::new(),
    };

    for v in [0u16, 2, 3, 0x0100, u16::MAX] {
        g.both("version", &format!("set-{v}"), |h| h.version = v);
    }

    let ps = base.header.payload_size;
    g.both("payload_size", "plus1", |h| h.payload_size = ps.wrapping_add(1));
    if ps > 0 {
        g.both("payload_size", "minus1", |h| h.payload_size = ps - 1);
        g.both("payload_size", "zero", |h| h.payload_size = 0);
    }
    g.both("payload_size", "max", |h| h.payload_size = u32::MAX);
    let ops_other_size = other[k % other.len()].header.payload_size;
    g.both("payload_size", "other-op", |h| h.payload_size = ops_other_size);

    let ph = base.header.payload_hash;
    if let Some(p) = ph {
        g.both("payload_hash", "none", |h| h.payload_hash = None);
        let mut b = *p.as_bytes();
        let (i, bit) = (rng.usize_below(32), rng.below(8) as u8);
        flip_bit(&mut b, i, bit);
        g.both("payload_hash", "bitflip", move |h| {
            h.payload_hash = Some(Hash::from_bytes(b))
        });
    }
    let foreign = other[k % other.len()]
        .header
        .payload_hash
        .unwrap_or(Hash::digest(b"foreign payload"));
    g.both("payload_hash", "other-op", |h| h.payload_hash = Some(foreign));

    let seq = base.header.seq_num;
    if seq > 0 {
        g.both("seq_num", "zero", |h| h.seq_num = 0);
        g.both("seq_num", "minus1", |h| h.seq_num = seq - 1);
    }
    g.both("seq_num", "plus1", |h| h.seq_num = seq + 1);
    g.both("seq_num", "max", |h| h.seq_num = u32::MAX);

    if let Some(bl) = base.header.backlink {
        g.both("backlink", "none", |h| h.backlink = None);
        let mut b = *bl.as_bytes();
        let (i, bit) = (rng.usize_below(32), rng.below(8) as u8);
        flip_bit(&mut b, i, bit);
        g.both("backlink", "bitflip", move |h| {
            h.backlink = Some(Hash::from_bytes(b))
        });
        if k >= 2 {
            let older = ops[k - 2].hash;
            g.both("backlink", "older-op", |h| h.backlink = Some(older));
        }
    }
    let own = base.hash;
    g.both("backlink", "own-hash", |h| h.backlink = Some(own));
    let foreign_op = other[k % other.len()].hash;
    g.both("backlink", "other-author-op", |h| h.backlink = Some(foreign_op));

    if E::CARRIES {
        let (l, p) = (base.header.extensions.log(), base.header.extensions.prune());
        g.both("extensions", "log-plus1", |h| h.extensions = E::make(l + 1, p));
        g.both("extensions", "prune-flipped", |h| h.extensions = E::make(l, !p));
    }

    // Verifying key.
    {
        let vkb = skb.verifying_key();
        let mut m = base.clone();
        m.header.verifying_key = vkb;
        m.hash = m.header.hash();
        g.one("verifying_key", "other-author-keep-sig".into(), m.clone());
        resign(&mut m, skb);
        g.out.push(Mutant {
            field: "verifying_key",
            kind: "other-author-resigned-by-them".into(),
            resigned: true,
            op: m,
        });
        for i in flip_positions(rng, 32) {
            for bit in 0..8 {
                let mut b = *base.header.verifying_key.as_bytes();
                flip_bit(&mut b, i, bit);
                if let Ok(vk) = VerifyingKey::from_bytes(&b) {
                    let mut m = base.clone();
                    m.header.verifying_key = vk;
                    m.hash = m.header.hash();
                    g.one("verifying_key", "bitflip".into(), m);
                }
            }
        }
    }

    // Signature.
    {
        let mut m = base.clone();
        m.header.signature = None;
        m.hash = m.header.hash();
        g.one("signature", "none".into(), m);
        let sig = base.header.signature.expect("signed").to_bytes();
        for i in flip_positions(rng, 64) {
            for bit in 0..8 {
                let mut b = sig;
                flip_bit(&mut b, i, bit);
                let mut m = base.clone();
                m.header.signature = Some(Signature::from_bytes(&b));
                m.hash = m.header.hash();
                g.one("signature", "bitflip".into(), m);
            }
        }
        let mut m = base.clone();
        m.header.signature = ops[(k + 1) % n].header.signature;
        m.hash = m.header.hash();
        g.one("signature", "of-sibling-op".into(), m);
        // Signature by another key over the same unsigned bytes (claimed author unchanged).
        let mut m = base.clone();
        m.header.sign(skb);
        m.hash = m.header.hash();
        g.one("signature", "by-other-key".into(), m);
    }

    // Body (the id does not depend on the body).
    {
        let body = base.body.as_ref().map(|b| b.to_bytes());
        match &body {
            Some(b) => {
                let mut m = base.clone();
                m.body = Some(Body::new(&b[..b.len() - 1]));
                g.one("body", "truncated".into(), m);
                let mut m = base.clone();
                let mut e = b.clone();
                e.push(rng.next_u32() as u8);
                m.body = Some(Body::new(&e));
                g.one("body", "extended".into(), m);
                let mut m = base.clone();
                let mut f = b.clone();
                let (i, bit) = (rng.usize_below(f.len()), rng.below(8) as u8);
                flip_bit(&mut f, i, bit);
                m.body = Some(Body::new(&f));
                g.one("body", "bitflip".into(), m);
                let mut m = base.clone();
                m.body = None;
                g.one("body", "dropped".into(), m);
                let mut m = base.clone();
                m.body = Some(Body::new(&[]));
                g.one("body", "emptied".into(), m);
                let mut m = base.clone();
                m.body = Some(Body::new(b"some other body of another operation"));
                g.one("body", "replaced".into(), m);
            }
            None => {
                let mut m = base.clone();
                let n = 1 + rng.usize_below(20);
                m.body = Some(Body::new(&rng.bytes(n)));
                g.one("body", "attached-to-bodyless".into(), m);
                let mut m = base.clone();
                m.body = Some(Body::new(&[]));
                g.one("body", "attached-empty-to-bodyless".into(), m);
            }
        }
    }

    // Wire bytes: flip one bit of the encoded signed header and decode it the way a receiver does.
    {
        let bytes = base.header.to_bytes();
        for i in flip_positions(rng, bytes.len()) {
            for bit in 0..8 {
                let mut b = bytes.clone();
                flip_bit(&mut b, i, bit);
                if let Ok(header) = decode_cbor::<Header<E>, _>(&b[..]) {
                    let m = Operation {
                        hash: header.hash(),
                        header,
                        body: base.body.clone(),
                    };
                    g.one("wire-byte", "bitflip-decoded".into(), m);
                }
            }
        }
    }

    g.out
}

struct Ctx<'a> {
    rep: &'a mut Local,
    seed: u64,
    case: u64,
    mutants: u64,
}

fn seq_class(k: usize, n: usize) -> &'static str {
    if k == 0 {
        "first"
    } else if k + 1 == n {
        "last"
    } else {
        "middle"
    }
}

/// Evaluate one candidate against the store; returns true when the store content changed
/// (legitimately accepted) so that the caller restores it.
#[allow(clippy::too_many_arguments)]
async fn evaluate<E: RefExt>(
    cx: &mut Ctx<'_>,
    store: &SqliteStore,
    topic: &TopicId,
    model: &RefLogs,
    before: &mut Vec<String>,
    m: &Mutant<E>,
    class: &'static str,
    phase: &'static str,
) -> bool {
    let expect = model.expect(&m.op);
    let out = ingest(store, &m.op, topic).await;
    let after = match dump(store).await {
        Ok(d) => d,
        Err(e) => {
            cx.rep.inconclusive(format!("table dump failed: {e}"));
            return true;
        }
    };
    cx.mutants += 1;
    let witness = || {
        json!({
            "seed": cx.seed, "case": cx.case, "ext": E::NAME, "phase": phase, "seq_class": class,
            "field": m.field, "kind": m.kind, "resigned": m.resigned,
            "candidate": op_json(&m.op), "ingest": out.detail(),
            "rows_before": before.len(), "rows_after": after.len(),
        })
    };
    let changed = *before != after;
    let definite = !matches!(expect, Expect::Unjudged);
    cx.rep.bump(&format!("outcome_{}", out.tag()), 1);
    cx.rep.bump(&format!("candidates_{}{}", m.field, if m.resigned { "_resigned" } else { "" }), 1);
    match (&expect, &out) {
        (Expect::Reject(why), o) if o.accepted() => {
            cx.rep.violation(
                &format!("C01:accepted-invalid:{why}"),
                format!(
                    "ingest returned {} for a candidate whose {} check fails ({} {}{})",
                    out.tag(),
                    why,
                    m.field,
                    m.kind,
                    if m.resigned { ", re-signed" } else { "" }
                ),
                witness(),
            );
        }
        (Expect::Reject(_), Outcome::Rejected(_)) => {
            cx.rep.bump("rejected_as_required", 1);
            if changed {
                cx.rep.violation(
                    "C01:store-changed-on-reject",
                    "a rejected ingest left operations_v1/topics_v1 different",
                    witness(),
                );
            }
        }
        (_, Outcome::Panicked(p)) => {
            // Recorded, not judged by C01 unless the store changed.
            cx.rep.bump("panics_observed", 1);
            cx.rep
                .extra("first_panic", json!({"message": p, "candidate": op_json(&m.op)}));
            if changed {
                cx.rep.violation(
                    "C01:store-changed-on-panic",
                    "ingest panicked and left the tables different",
                    witness(),
                );
            }
        }
        (Expect::AcceptExisting, Outcome::Exists) => {
            cx.rep.bump("accepted_existing_as_allowed", 1);
            if changed {
                cx.rep.violation(
                    "C01:store-changed-on-duplicate",
                    "Ok(false) but the tables differ",
                    witness(),
                );
            }
        }
        (Expect::AcceptNew, Outcome::Inserted) => {
            cx.rep.bump("accepted_new_as_allowed", 1);
        }
        (Expect::AcceptNew | Expect::AcceptExisting, Outcome::Rejected(_)) => {
            // One-directional statement: a stricter ingest is recorded, not judged.
            cx.rep.bump("reference_accepts_but_rejected", 1);
            if changed {
                cx.rep.violation(
                    "C01:store-changed-on-reject",
                    "a rejected ingest left operations_v1/topics_v1 different",
                    witness(),
                );
            }
        }
        (Expect::AcceptNew, Outcome::Exists) | (Expect::AcceptExisting, Outcome::Inserted) => {
            cx.rep.bump("reference_disagrees_on_existence", 1);
        }
        (Expect::Unjudged, _) => {
            cx.rep.bump("unjudged_prune_position", 1);
        }
        _ => {}
    }
    let key = definite.then(|| (E::NAME, m.field, m.kind.clone(), m.resigned, class, phase));
    cx.rep.case(key);
    if cx.rep.want_sample() && cx.mutants % 97 == if m.resigned { 2 } else { 1 } {
        cx.rep.sample(json!({
            "ext": E::NAME, "phase": phase, "field": m.field, "kind": m.kind,
            "resigned": m.resigned, "reference": match expect {
                Expect::AcceptNew => "accept-new".to_string(),
                Expect::AcceptExisting => "accept-existing".to_string(),
                Expect::Reject(w) => format!("reject:{w}"),
                Expect::Unjudged => "unjudged".to_string(),
            },
            "ingest": out.detail(), "candidate": op_json(&m.op),
        }));
    }
    *before = after;
    changed
}

async fn restore<E: RefExt>(
    rep: &mut Local,
    store: &SqliteStore,
    topic: &TopicId,
    prefix: &[Operation<E>],
) -> (RefLogs, Vec<String>) {
    let mut model = RefLogs::default();
    if let Err(e) = wipe(store).await {
        rep.inconclusive(format!("wipe failed: {e}"));
    }
    for op in prefix {
        match ingest(store, op, topic).await {
            Outcome::Inserted => model.insert(op),
            o => rep.inconclusive(format!(
                "positive control failed: a valid prefix operation was not inserted ({})",
                o.detail()
            )),
        }
    }
    let d = dump(store).await.unwrap_or_default();
    (model, d)
}

async fn run_case<E: RefExt>(cx: &mut Ctx<'_>) {
    let mut rng = Rng::fork(cx.seed, cx.case);
    let (ska, skb) = (key(&mut rng), key(&mut rng));
    let n = 3 + rng.usize_below(3);
    let log = rng.below(4);
    let ops: Vec<Operation<E>> = build_log(&mut rng, &ska, log, n, &[]);
    let other: Vec<Operation<E>> = build_log(&mut rng, &skb, log, n, &[]);
    let k = match (cx.case / 3) % 3 {
        0 => 0,
        1 => n - 1,
        _ => 1 + rng.usize_below(n - 2),
    };
    let class = seq_class(k, n);
    let topic: TopicId = rng.array32();
    let store = SqliteStore::temporary().await;

    // Harness self-check: the independent encoder must reproduce the bytes the author signed.
    for op in ops.iter().chain(other.iter()) {
        let mut u = op.header.clone();
        u.signature = None;
        let sig = op.header.signature.expect("signed");
        if canonical_unsigned(&op.header) != u.to_bytes()
            || canonical_signed(&op.header, &sig) != op.header.to_bytes()
            || Hash::digest(canonical_signed(&op.header, &sig)) != op.hash
        {
            cx.rep.inconclusive(format!(
                "reference CBOR encoder disagrees with Header::to_bytes on a valid header ({})",
                E::NAME
            ));
            return;
        }
    }

    let mutants = gen_mutants(&mut rng, &ops, k, &other, &ska, &skb);

    // Phase A: store holds 0..k-1, the untampered op k would be accepted.
    let (mut model, mut before) = restore(cx.rep, &store, &topic, &ops[..k]).await;
    for m in &mutants {
        let changed =
            evaluate::<E>(cx, &store, &topic, &model, &mut before, m, class, "prefix-stored").await;
        if changed {
            (model, before) = restore(cx.rep, &store, &topic, &ops[..k]).await;
        }
    }

    // Positive control + phase B: the original is stored; tampered copies that keep the original id
    // (lazy in-memory tampering / dedup short-cut) and body mutants are replayed.
    match ingest(&store, &ops[k], &topic).await {
        Outcome::Inserted => {
            model.insert(&ops[k]);
            cx.rep.bump("positive_controls_inserted", 1);
        }
        o => {
            cx.rep.inconclusive(format!(
                "positive control failed: untampered op k not inserted ({})",
                o.detail()
            ));
            return;
        }
    }
    before = dump(&store).await.unwrap_or_default();
    for (i, m) in mutants.iter().enumerate() {
        if m.resigned || (m.field != "body" && i % 3 != (cx.case % 3) as usize) {
            continue;
        }
        let mut m = m.clone();
        m.op.hash = ops[k].hash;
        let changed = evaluate::<E>(
            cx,
            &store,
            &topic,
            &model,
            &mut before,
            &m,
            class,
            "original-stored-id-kept",
        )
        .await;
        if changed {
            (model, before) = restore(cx.rep, &store, &topic, &ops[..=k]).await;
        }
    }

    // Observation only: the `hash` field of `Operation` is not a wire field; is it checked?
    if cx.case % 7 == 0 && k + 1 < n {
        let mut m = ops[k + 1].clone();
        m.hash = Hash::digest(b"not the id of this header");
        let out = ingest(&store, &m, &topic).await;
        cx.rep.bump(
            &format!("observed_wrong_id_field_{}", out.tag()),
            1,
        );
    }
}

/// Headers with arbitrary field combinations, signed by the right key, a wrong key or nobody.
async fn run_arbitrary<E: RefExt>(cx: &mut Ctx<'_>, count: u64) {
    let mut rng = Rng::fork(cx.seed ^ 0xA5A5, cx.case);
    let (ska, skb) = (key(&mut rng), key(&mut rng));
    let log = rng.below(3);
    let ops: Vec<Operation<E>> = build_log(&mut rng, &ska, log, 3, &[]);
    let topic: TopicId = rng.array32();
    let store = SqliteStore::temporary().await;
    let (mut model, mut before) = restore(cx.rep, &store, &topic, &ops[..2]).await;
    for _ in 0..count {
        let body: Option<Vec<u8>> = match rng.below(4) {
            0 => None,
            1 => Some(vec![]),
            _ => {
                let n = 1 + rng.usize_below(12);
                Some(rng.bytes(n))
            }
        };
        let claimed = body.clone().filter(|b| !b.is_empty());
        let payload_size = match rng.below(6) {
            0 => 0,
            1 => 1,
            2 => u32::MAX,
            _ => claimed.as_ref().map(|b| b.len() as u32).unwrap_or(0),
        };
        let payload_hash = match rng.below(5) {
            0 => None,
            1 => Some(Hash::digest(b"unrelated")),
            _ => claimed.as_ref().map(Hash::digest),
        };
        let seq_num = *rng.pick(&[0u32, 1, 2, 2, 2, 3, u32::MAX]);
        let backlink = match rng.below(5) {
            0 => None,
            1 => Some(ops[0].hash),
            2 => Some(Hash::digest(b"nowhere")),
            _ => Some(ops[1].hash),
        };
        let version = *rng.pick(&[1u16, 1, 1, 1, 0, 2, u16::MAX]);
        let mut header = Header {
            version,
            verifying_key: ska.verifying_key(),
            signature: None,
            payload_size,
            payload_hash,
            seq_num,
            backlink,
            extensions: E::make(log, false),
        };
        let signer = rng.below(8);
        match signer {
            0 => header.sign(&skb),
            1 => {}
            _ => header.sign(&ska),
        }
        let op = Operation {
            hash: header.hash(),
            header,
            body: body.as_deref().map(Body::new),
        };
        let m = Mutant {
            field: "arbitrary",
            kind: format!(
                "v{}-ps{}-ph{}-s{}-bl{}-b{}-sig{}",
                match version {
                    1 => "1",
                    _ => "x",
                },
                match payload_size {
                    0 => "0",
                    u32::MAX => "max",
                    _ => "n",
                },
                payload_hash.is_some() as u8,
                match seq_num {
                    0 => "0",
                    2 => "next",
                    _ => "x",
                },
                backlink.is_some() as u8,
                match &body {
                    None => "none",
                    Some(b) if b.is_empty() => "empty",
                    _ => "some",
                },
                match signer {
                    0 => "other",
                    1 => "none",
                    _ => "author",
                }
            ),
            resigned: true,
            op,
        };
        let changed =
            evaluate::<E>(cx, &store, &topic, &model, &mut before, &m, "n/a", "arbitrary").await;
        if changed {
            (model, before) = restore(cx.rep, &store, &topic, &ops[..2]).await;
        }
    }
}

/// Observation only (C01 does not speak about panics): a prune-flagged operation at
/// `seq = u32::MAX` followed by any non-prune operation of that log reaches `past.seq_num + 1`.
async fn probe_seq_overflow(rep: &mut Report, seed: u64) {
    let mut rng = Rng::fork(seed, 0xFFFF);
    let sk = key(&mut rng);
    let store = SqliteStore::temporary().await;
    let topic: TopicId = rng.array32();
    let top: Operation<ExtS> = build_op(
        &sk,
        u32::MAX,
        Some(Hash::digest(b"pruned away")),
        Some(b"top"),
        ExtS::make(1, true),
    );
    let first = ingest(&store, &top, &topic).await;
    let next: Operation<ExtS> = build_op(&sk, 0, None, Some(b"again"), ExtS::make(1, false));
    let before = dump(&store).await.unwrap_or_default();
    let second = ingest(&store, &next, &topic).await;
    let after = dump(&store).await.unwrap_or_default();
    rep.extra(
        "observed_seq_max_probe",
        json!({
            "prune_flagged_seq_max": first.detail(),
            "following_seq0_op": second.detail(),
            "store_unchanged_by_second": before == after,
            "note": "recorded, not judged: overflow-checks are on in this (dev) profile",
        }),
    );
    if second.accepted() {
        rep.violation(
            "C01:accepted-invalid:position",
            "seq 0 operation accepted on top of a stored seq u32::MAX entry",
            json!({"seed": seed, "probe": "seq-overflow", "candidate": op_json(&next)}),
        );
    }
}

pub fn run(args: &Args) {
    quiet_panics();
    let mut rep = Report::new(args, RULE, 150);
    let base = args.n(60, 1000);
    let arbitrary = args.n(6, 150);
    let per_arbitrary = 200;
    run_cases(args, &mut rep, base + arbitrary, |local, c, rt| {
        rt.block_on(async {
            let mut cx = Ctx {
                rep: local,
                seed: args.seed,
                case: c,
                mutants: 0,
            };
            if c < base {
                match c % 3 {
                    0 => run_case::<ExtS>(&mut cx).await,
                    1 => run_case::<()>(&mut cx).await,
                    _ => run_case::<ExtT>(&mut cx).await,
                }
            } else {
                match c % 3 {
                    0 => run_arbitrary::<ExtS>(&mut cx, per_arbitrary).await,
                    1 => run_arbitrary::<()>(&mut cx, per_arbitrary).await,
                    _ => run_arbitrary::<ExtT>(&mut cx, per_arbitrary).await,
                }
            }
            let n = cx.mutants;
            local.bump("candidates_ingested", n);
        })
    });
    rep.extra("base_logs", json!(base));
    rep.extra("arbitrary_header_batches", json!(arbitrary));
    runtime().block_on(probe_seq_overflow(&mut rep, args.seed));
    rep.finish(args);
}
