//! C08: the SQLite `LogStore` queries agree with an in-memory model after any command sequence and
//! never panic.
//!
//! Command machine over `OperationStore` + `LogStore` + `Transaction` (insert in any order incl.
//! gaps, duplicate insert, rolled-back insert, delete, payload deletion, prune) on 3 authors x 3
//! logs; after every command `get_latest_entry(_tx)`, `get_log_heights`, `get_log_entries`,
//! `get_log_size` are compared with a `BTreeMap` model for boundary and random arguments. Every
//! store call runs under `catch_unwind`.

use std::collections::{BTreeMap, HashMap};

use p2panda_core::{Hash, Operation, SeqNum, SigningKey, VerifyingKey};
use p2panda_store::logs::LogStore;
use p2panda_store::operations::OperationStore;
use p2panda_store::{SqliteStore, Transaction};
use vh_common::{Args, Report, Rng, Value, json, quiet_panics};

use crate::common::*;
use crate::par::{Local, run_cases};

const RULE: &str = "Each machine: fresh SqliteStore (in-memory; every 10th on a file database), pool of valid \
operations for 3 authors x 3 logs x 4-8 seqs, 40 random commands (insert incl. out-of-order / under another \
log id / without body, duplicate insert, rolled-back insert, delete, delete payload, prune at boundary \
values). After every command: latest entry (touched + random + unknown author/log), log heights for the \
sets [] / [unknown] / [touched] / all / duplicates / random subset, and ranged entries + ranged size for \
(after, until) drawn from {None, 0, h-1, h, h+1, u32::MAX}^2 (full grid every 8th command and at the end). \
Non-trivial = the machine reached a state with >= 2 logs of different height and issued >= 1 empty-set \
and >= 1 boundary-range query; distinct = the command trace.";

type LS = SqliteStore;

macro_rules! logstore {
    ($m:ident ( $store:expr $(, $a:expr)* )) => {
        <LS as LogStore<Operation<ExtS>, VerifyingKey, LogIdT, SeqNum, Hash>>::$m($store $(, $a)*)
    };
}
macro_rules! opstore {
    ($m:ident ( $store:expr $(, $a:expr)* )) => {
        <LS as OperationStore<Operation<ExtS>, Hash>>::$m($store $(, $a)*)
    };
}

#[derive(Clone)]
pub struct Row {
    pub vk: [u8; 32],
    pub log: u64,
    pub seq: u32,
    pub header: Vec<u8>,
    pub payload_size: u32,
    pub body: Option<Vec<u8>>,
    pub hash: Hash,
}

#[derive(Default, Clone)]
pub struct Model {
    pub rows: HashMap<Hash, Row>,
}

impl Model {
    fn log(&self, vk: &[u8; 32], log: u64) -> BTreeMap<u32, &Row> {
        self.rows
            .values()
            .filter(|r| r.vk == *vk && r.log == log)
            .map(|r| (r.seq, r))
            .collect()
    }
    fn occupied_by_other(&self, vk: &[u8; 32], log: u64, seq: u32, hash: &Hash) -> bool {
        self.rows
            .values()
            .any(|r| r.vk == *vk && r.log == log && r.seq == seq && r.hash != *hash)
    }
    fn range(&self, vk: &[u8; 32], log: u64, after: Option<u32>, until: Option<u32>) -> Vec<&Row> {
        self.log(vk, log)
            .into_iter()
            .filter(|(s, _)| after.is_none_or(|a| *s > a) && until.is_none_or(|u| *s <= u))
            .map(|(_, r)| r)
            .collect()
    }
    fn insert(&mut self, op: &Operation<ExtS>, log: u64) {
        self.rows.insert(
            op.hash,
            Row {
                vk: *op.header.verifying_key.as_bytes(),
                log,
                seq: op.header.seq_num,
                header: op.header.to_bytes(),
                payload_size: op.header.payload_size,
                body: op.body.as_ref().map(|b| b.to_bytes()),
                hash: op.hash,
            },
        );
    }
}

pub struct Pool {
    pub authors: Vec<SigningKey>,
    pub logs: Vec<u64>,
    pub ops: Vec<Operation<ExtS>>,
}

pub fn gen_pool(rng: &mut Rng) -> Pool {
    let authors: Vec<SigningKey> = (0..3).map(|_| key(rng)).collect();
    let logs = vec![rng.below(5), 10 + rng.below(5), u64::MAX - rng.below(3)];
    let mut ops = Vec::new();
    for a in &authors {
        for l in &logs {
            let n = 4 + rng.usize_below(5);
            let pp: Vec<u32> = (1..n as u32).filter(|_| rng.chance(0.15)).collect();
            ops.extend(build_log::<ExtS>(rng, a, *l, n, &pp));
        }
    }
    Pool { authors, logs, ops }
}

struct Mach<'a> {
    rep: &'a mut Local,
    store: SqliteStore,
    model: Model,
    trace: Vec<String>,
    seed: u64,
    machine: u64,
    empty_set_queries: u32,
    boundary_queries: u32,
    heights_differ: bool,
}

fn same_op(got: &Operation<ExtS>, want: &Row) -> bool {
    got.hash == want.hash
        && got.header.to_bytes() == want.header
        && got.body.as_ref().map(|b| b.to_bytes()) == want.body
}

impl Mach<'_> {
    fn witness(&self, query: Value) -> Value {
        json!({"seed": self.seed, "machine": self.machine, "commands": self.trace, "query": query})
    }

    fn bad(&mut self, sig: String, what: String, query: Value) {
        let w = self.witness(query);
        self.rep.violation(&sig, what, w);
    }

    /// Unwrap a guarded store call: panics and store errors are violations of C08.
    fn settle<T>(
        &mut self,
        method: &str,
        class: &str,
        r: Result<Result<T, String>, String>,
        query: Value,
    ) -> Option<T> {
        self.rep.bump("store_calls", 1);
        match r {
            Ok(Ok(v)) => Some(v),
            Ok(Err(e)) => {
                self.bad(
                    format!("C08:error:{method}:{class}"),
                    format!("{method} returned an error: {e}"),
                    query,
                );
                None
            }
            Err(p) => {
                self.bad(
                    format!("C08:panic:{method}:{class}"),
                    format!("{method} panicked: {p}"),
                    query,
                );
                None
            }
        }
    }

    async fn check_latest(&mut self, vk: &VerifyingKey, log: u64, in_tx: bool) {
        let store = self.store.clone();
        let q = json!({"method": if in_tx {"get_latest_entry_tx"} else {"get_latest_entry"}, "author": vk.to_hex(), "log": log});
        let r = if in_tx {
            guarded(async {
                let permit = store.begin().await.map_err(|e| e.to_string())?;
                let r = logstore!(get_latest_entry_tx(&store, vk, &log)).await.map_err(|e| e.to_string());
                store.rollback(permit).await.map_err(|e| e.to_string())?;
                r
            })
            .await
        } else {
            guarded(async { logstore!(get_latest_entry(&store, vk, &log)).await.map_err(|e| e.to_string()) }).await
        };
        let method = if in_tx { "get_latest_entry_tx" } else { "get_latest_entry" };
        let Some(got) = self.settle(method, "any", r, q.clone()) else {
            return;
        };
        let l = self.model.log(vk.as_bytes(), log);
        let want = l.values().next_back().copied();
        let ok = match (&got, want) {
            (None, None) => true,
            (Some(g), Some(w)) => same_op(g, w),
            _ => false,
        };
        self.rep.bump("comparisons_latest", 1);
        if !ok {
            self.bad(
                format!("C08:mismatch:{method}"),
                format!(
                    "latest entry: store {:?}, model {:?}",
                    got.as_ref().map(|g| (g.header.seq_num, short(&g.hash))),
                    want.map(|w| (w.seq, short(&w.hash)))
                ),
                q,
            );
        }
    }

    async fn check_heights(&mut self, vk: &VerifyingKey, logs: &[u64], class: &str) {
        let store = self.store.clone();
        let q = json!({"method": "get_log_heights", "author": vk.to_hex(), "logs": logs, "class": class});
        if logs.is_empty() {
            self.empty_set_queries += 1;
        }
        let r = guarded(async { logstore!(get_log_heights(&store, vk, logs)).await.map_err(|e| e.to_string()) }).await;
        let Some(got) = self.settle("get_log_heights", class, r, q.clone()) else {
            return;
        };
        let mut want: BTreeMap<u64, u32> = BTreeMap::new();
        for l in logs {
            if let Some((s, _)) = self.model.log(vk.as_bytes(), *l).iter().next_back() {
                want.insert(*l, *s);
            }
        }
        // `None` and an empty map both say "no requested log has entries".
        let got_map = got.clone().unwrap_or_default();
        self.rep.bump("comparisons_heights", 1);
        if got_map != want || (got.is_some() && got_map.is_empty() && !logs.is_empty()) {
            self.bad(
                format!("C08:mismatch:get_log_heights:{class}"),
                format!("heights: store {got:?}, model {want:?}"),
                q,
            );
        }
    }

    async fn check_range(&mut self, vk: &VerifyingKey, log: u64, after: Option<u32>, until: Option<u32>) {
        let store = self.store.clone();
        self.boundary_queries += 1;
        let want = self.model.range(vk.as_bytes(), log, after, until);
        let want_ids: Vec<(u32, String)> = want.iter().map(|r| (r.seq, short(&r.hash))).collect();
        let want_size: (u32, u32) = (
            want.len() as u32,
            want.iter().map(|r| r.header.len() as u32 + r.payload_size).sum(),
        );
        let want_rows: Vec<Row> = want.into_iter().cloned().collect();

        let q = json!({"method": "get_log_entries", "author": vk.to_hex(), "log": log, "after": after, "until": until});
        let r = guarded(async {
            logstore!(get_log_entries(&store, vk, &log, after, until)).await.map_err(|e| e.to_string())
        })
        .await;
        if let Some(got) = self.settle("get_log_entries", "range", r, q.clone()) {
            let list = got.clone().unwrap_or_default();
            let ok = list.len() == want_rows.len()
                && list
                    .iter()
                    .zip(want_rows.iter())
                    .all(|((op, hdr), w)| same_op(op, w) && *hdr == w.header)
                && !(got.is_some() && list.is_empty());
            self.rep.bump("comparisons_entries", 1);
            if !ok {
                self.bad(
                    "C08:mismatch:get_log_entries".into(),
                    format!(
                        "entries(after={after:?}, until={until:?}): store {:?}, model {:?}",
                        list.iter().map(|(o, _)| (o.header.seq_num, short(&o.hash))).collect::<Vec<_>>(),
                        want_ids
                    ),
                    q,
                );
            }
        }

        let q = json!({"method": "get_log_size", "author": vk.to_hex(), "log": log, "after": after, "until": until});
        let r = guarded(async {
            logstore!(get_log_size(&store, vk, &log, after, until)).await.map_err(|e| e.to_string())
        })
        .await;
        if let Some(got) = self.settle("get_log_size", "range", r, q.clone()) {
            // Empty range: the trait does not say; both `None` and `(0, 0)` mean "nothing".
            let ok = match got {
                None => want_size == (0, 0),
                Some(g) => g == want_size,
            };
            self.rep.bump("comparisons_size", 1);
            if !ok {
                self.bad(
                    "C08:mismatch:get_log_size".into(),
                    format!("size(after={after:?}, until={until:?}): store {got:?}, model {want_size:?}"),
                    q,
                );
            }
        }
    }
}

fn boundary(h: Option<u32>) -> Vec<Option<u32>> {
    let h = h.unwrap_or(0);
    let mut v = vec![None, Some(0), Some(h.saturating_sub(1)), Some(h), Some(h + 1), Some(u32::MAX)];
    v.dedup();
    v
}

async fn machine(rep: &mut Local, args: &Args, n: u64, dir: &std::path::Path) {
    let mut rng = Rng::fork(args.seed, n);
    let pool = gen_pool(&mut rng);
    let file = (n % 10 == 9).then(|| dir.join(format!("m{n}.sqlite")));
    let store = new_store(file.as_deref()).await;
    let unknown_author = key(&mut rng).verifying_key();
    let unknown_log = 424_242u64;
    let mut m = Mach {
        rep,
        store: store.clone(),
        model: Model::default(),
        trace: Vec::new(),
        seed: args.seed,
        machine: n,
        empty_set_queries: 0,
        boundary_queries: 0,
        heights_differ: false,
    };
    let steps = args.param_u64("commands", 40);
    for step in 0..steps {
        let op = rng.pick(&pool.ops).clone();
        let mut touched = (op.header.verifying_key, op.header.extensions.log);
        match rng.below(20) {
            // Insert (plain, batch, under another log id, without body, rolled back).
            0..=10 => {
                let variant = rng.below(10);
                let log = if variant == 0 { *rng.pick(&pool.logs) } else { op.header.extensions.log };
                let mut ins = op.clone();
                if variant == 1 {
                    ins.body = None;
                }
                let rollback = variant == 2;
                touched.1 = log;
                if m.model.occupied_by_other(op.header.verifying_key.as_bytes(), log, op.header.seq_num, &op.hash) {
                    m.trace.push(format!("skip-insert a{} l{log} s{}", short(&Hash::digest(op.header.verifying_key.as_bytes())), op.header.seq_num));
                } else {
                    m.trace.push(format!(
                        "insert{} {} log={log} seq={} body={}",
                        if rollback { "+rollback" } else { "" },
                        short(&ins.hash),
                        ins.header.seq_num,
                        ins.body.is_some()
                    ));
                    let s = store.clone();
                    let want = !m.model.rows.contains_key(&ins.hash);
                    let ins2 = ins.clone();
                    let r = guarded(async {
                        let permit = s.begin().await.map_err(|e| e.to_string())?;
                        let r = opstore!(insert_operation(&s, &ins2.hash, &ins2, &log)).await.map_err(|e| e.to_string());
                        if rollback {
                            s.rollback(permit).await.map_err(|e| e.to_string())?;
                        } else {
                            s.commit(permit).await.map_err(|e| e.to_string())?;
                        }
                        r
                    })
                    .await;
                    if let Some(got) = m.settle("insert_operation", "any", r, json!({"op": short(&ins.hash)})) {
                        if got != want {
                            m.bad(
                                "C08:mismatch:insert_operation".into(),
                                format!("insert returned {got}, model says {want}"),
                                json!({"op": op_json(&ins)}),
                            );
                        }
                        if want && !rollback {
                            m.model.insert(&ins, log);
                        }
                    }
                }
            }
            11..=12 => {
                m.trace.push(format!("delete {}", short(&op.hash)));
                let s = store.clone();
                let id = op.hash;
                let r = guarded(async {
                    let permit = s.begin().await.map_err(|e| e.to_string())?;
                    let r = opstore!(delete_operation(&s, &id)).await.map_err(|e| e.to_string());
                    s.commit(permit).await.map_err(|e| e.to_string())?;
                    r
                })
                .await;
                let want = m.model.rows.contains_key(&id);
                if let Some(r) = m.model.rows.get(&id) {
                    touched.1 = r.log;
                }
                if let Some(got) = m.settle("delete_operation", "any", r, json!({"op": short(&id)})) {
                    if got != want {
                        m.bad("C08:mismatch:delete_operation".into(), format!("delete returned {got}, model {want}"), json!({"op": short(&id)}));
                    }
                    m.model.rows.remove(&id);
                }
            }
            13..=14 => {
                m.trace.push(format!("delete-payload {}", short(&op.hash)));
                let s = store.clone();
                let id = op.hash;
                let r = guarded(async { opstore!(delete_operation_payload(&s, &id)).await.map_err(|e| e.to_string()) }).await;
                let want = m.model.rows.contains_key(&id);
                if let Some(got) = m.settle("delete_operation_payload", "any", r, json!({"op": short(&id)})) {
                    if got != want {
                        m.bad("C08:mismatch:delete_operation_payload".into(), format!("returned {got}, model {want}"), json!({"op": short(&id)}));
                    }
                    if let Some(r) = m.model.rows.get_mut(&id) {
                        touched.1 = r.log;
                        r.body = None;
                    }
                }
            }
            _ => {
                let vk = op.header.verifying_key;
                let log = op.header.extensions.log;
                let h = m.model.log(vk.as_bytes(), log).keys().next_back().copied();
                let until = rng.pick(&boundary(h)).unwrap_or(op.header.seq_num);
                m.trace.push(format!("prune a={} log={log} until={until}", &vk.to_hex()[..8]));
                let s = store.clone();
                let r = guarded(async { logstore!(prune_entries(&s, &vk, &log, &until)).await.map_err(|e| e.to_string()) }).await;
                let doomed: Vec<Hash> = m
                    .model
                    .log(vk.as_bytes(), log)
                    .iter()
                    .filter(|(s, _)| **s < until)
                    .map(|(_, r)| r.hash)
                    .collect();
                if let Some(got) = m.settle("prune_entries", "any", r, json!({"until": until})) {
                    if got != doomed.len() as u64 {
                        m.bad("C08:mismatch:prune_entries".into(), format!("pruned {got}, model {}", doomed.len()), json!({"until": until, "log": log}));
                    }
                    for d in doomed {
                        m.model.rows.remove(&d);
                    }
                }
            }
        }

        // ---- queries after the command ----
        let (tvk, tlog) = touched;
        m.check_latest(&tvk, tlog, false).await;
        if step % 5 == 0 {
            m.check_latest(&tvk, tlog, true).await;
        }
        let rvk = rng.pick(&pool.authors).verifying_key();
        let rlog = *rng.pick(&pool.logs);
        m.check_latest(&rvk, rlog, false).await;
        match rng.below(3) {
            0 => m.check_latest(&unknown_author, tlog, false).await,
            1 => m.check_latest(&tvk, unknown_log, false).await,
            _ => {}
        }

        m.check_heights(&tvk, &[], "empty-set").await;
        m.check_heights(&tvk, &[unknown_log], "unknown-log").await;
        m.check_heights(&tvk, &[tlog], "single").await;
        m.check_heights(&tvk, &pool.logs, "all").await;
        m.check_heights(&tvk, &[tlog, tlog, rlog, tlog], "duplicates").await;
        let mut subset: Vec<u64> = pool.logs.iter().copied().filter(|_| rng.bool()).collect();
        subset.push(unknown_log);
        rng.shuffle(&mut subset);
        m.check_heights(&rvk, &subset, "subset").await;
        if step % 7 == 0 {
            m.check_heights(&unknown_author, &pool.logs, "unknown-author").await;
            m.check_heights(&unknown_author, &[], "empty-set").await;
        }

        let h = m.model.log(tvk.as_bytes(), tlog).keys().next_back().copied();
        let b = boundary(h);
        if step % 8 == 7 || step + 1 == steps {
            for a in &b {
                for u in &b {
                    m.check_range(&tvk, tlog, *a, *u).await;
                }
            }
        } else {
            for _ in 0..6 {
                let (a, u) = (*rng.pick(&b), *rng.pick(&b));
                m.check_range(&tvk, tlog, a, u).await;
            }
            let (a, u) = (Some(rng.below(9) as u32), Some(rng.below(9) as u32));
            m.check_range(&rvk, rlog, a, u).await;
        }

        let hs: std::collections::BTreeSet<u32> = pool
            .authors
            .iter()
            .flat_map(|a| pool.logs.iter().map(move |l| (a.verifying_key(), *l)))
            .filter_map(|(a, l)| m.model.log(a.as_bytes(), l).keys().next_back().copied())
            .collect();
        if hs.len() >= 2 {
            m.heights_differ = true;
        }
    }
    let nontrivial = m.heights_differ && m.empty_set_queries > 0 && m.boundary_queries > 0;
    let key = nontrivial.then(|| m.trace.clone());
    if m.rep.want_sample() && n % 61 == 5 {
        let t = m.trace.clone();
        m.rep.sample(json!({"machine": n, "commands": t, "rows_at_end": m.model.rows.len()}));
    }
    m.rep.bump("commands", steps);
    m.rep.case(key);
    store.pool().close().await;
    if let Some(f) = file {
        let _ = std::fs::remove_file(f);
    }
}

pub fn run(args: &Args) {
    quiet_panics();
    let machines = args.n(300, 10_000);
    let mut rep = Report::new(args, RULE, (machines / 4).clamp(2, 50));
    let tmp = tempfile::tempdir().expect("tempdir");
    let dir = tmp.path();
    run_cases(args, &mut rep, machines, |local, n, rt| {
        rt.block_on(async {
            let r = tokio::time::timeout(std::time::Duration::from_secs(300), machine(local, args, n, dir)).await;
            if r.is_err() {
                local.inconclusive(format!("watchdog: machine {n} exceeded 300 s (not a verdict)"));
            }
        })
    });
    rep.finish(args);
}
