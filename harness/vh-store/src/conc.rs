//! C03 / C05, concurrent writers: 2-4 tokio tasks on a multi-thread runtime share clones of one
//! file-backed, multi-connection `SqliteStore` and deliver slices / permutations of the *same* log
//! concurrently through the real `ingest_operation`, each followed by the pipeline's
//! `prune_entries` step after a completed ingest of a prune-flagged operation. The pairs the
//! statement of C05 singles out are forced: one writer delivers the newer prune point while
//! another delivers the older prune-flagged operation (and its unflagged successors).
//!
//! Judged only at quiescence (all writers joined), which is sound for any interleaving because
//! transactions are serialized by the store's permit: an insert of seq s < P either committed
//! before the transaction that inserted the prune point P (then P's prune step, which runs after
//! that commit, deletes it) or its transaction started after that commit (then the check inside
//! the transaction sees a tip >= P and must reject). So once every prune step has finished
//!   C05: no stored entry has seq < P, P = highest prune-flagged seq whose ingest completed and
//!        whose prune step returned Ok;
//!   C03: stored seqs are unique and ascending and every stored unflagged entry with seq > 0
//!        links to the stored entry directly before it.
//! Nothing is judged while writers overlap.

use std::path::Path;
use std::time::{Duration, Instant};

use p2panda_core::{Operation, SigningKey};
use p2panda_store::SqliteStore;
use vh_common::{Args, Report, Rng, Value, json, quiet_panics};

use crate::common::*;
use crate::hist::Mode;

const RULE: &str = "Rounds on a shared file-backed SqliteStore (pool of 16 connections, one store per 40 rounds, fresh \
author per round): a log of 8-12 operations with an older (p1) and a newer (p2) prune point (C03 rounds: p1 \
flagged or not); ops 0..p1-1 are ingested first, then 2-4 concurrent writers on a 4-thread runtime deliver \
[p2..end], [p1..p2-1], optionally a shuffled copy of [p1..p2-1] and a permutation of the whole log, each with \
random yields / sub-millisecond sleeps before every ingest and the prune step after a completed prune-flagged \
ingest. Judged at quiescence only. Non-trivial = the ingest of the older operation p1 and the ingest+prune of \
the newer prune point p2 overlapped in time or p1 started later; distinct = (n, p1, p2, flags, writers, \
completion order with outcomes).";

#[derive(Clone, Debug)]
struct Delivery {
    writer: usize,
    seq: u32,
    prune: bool,
    start_us: u64,
    ingest_end_us: u64,
    end_us: u64,
    outcome: Outcome,
    pruned: Option<Result<u64, String>>,
}

async fn jitter(rng: &mut Rng) {
    match rng.below(6) {
        0 => {}
        1 | 2 => {
            for _ in 0..rng.below(4) {
                tokio::task::yield_now().await;
            }
        }
        3 | 4 => tokio::time::sleep(Duration::from_micros(rng.below(400))).await,
        _ => tokio::time::sleep(Duration::from_micros(200 + rng.below(1500))).await,
    }
}

async fn writer(
    store: SqliteStore,
    ops: Vec<Operation<ExtS>>,
    topic: TopicId,
    mut rng: Rng,
    id: usize,
    t0: Instant,
) -> Vec<Delivery> {
    let mut out = Vec::new();
    for op in ops {
        jitter(&mut rng).await;
        let start_us = t0.elapsed().as_micros() as u64;
        let outcome = ingest(&store, &op, &topic).await;
        let ingest_end_us = t0.elapsed().as_micros() as u64;
        let mut pruned = None;
        if outcome.accepted() && op.header.extensions.prune {
            pruned = Some(match prune_step(&store, &op).await {
                Ok(r) => r,
                Err(p) => Err(format!("panic: {p}")),
            });
        }
        out.push(Delivery {
            writer: id,
            seq: op.header.seq_num,
            prune: op.header.extensions.prune,
            start_us,
            ingest_end_us,
            end_us: t0.elapsed().as_micros() as u64,
            outcome,
            pruned,
        });
    }
    out
}

#[allow(clippy::too_many_arguments)]
async fn round(rep: &mut Report, mode: Mode, seed: u64, r: u64, store: &SqliteStore) {
    let mut rng = Rng::fork(seed ^ 0xC0C0, r);
    let sk: SigningKey = key(&mut rng);
    let vk = sk.verifying_key();
    let log = rng.below(1000);
    let topic: TopicId = [9; 32];
    let n = 8 + rng.usize_below(5);
    let p1 = 2 + rng.below(3) as u32;
    let p2 = p1 + 2 + rng.below((n as u64 - 1) - (p1 as u64 + 2)) as u32;
    let p1_flagged = mode == Mode::C05 || rng.bool();
    let pp: Vec<u32> = if p1_flagged { vec![p1, p2] } else { vec![p2] };
    let ops: Vec<Operation<ExtS>> = build_log(&mut rng, &sk, log, n, &pp);

    for op in &ops[..p1 as usize] {
        if !matches!(ingest(store, op, &topic).await, Outcome::Inserted) {
            rep.inconclusive("concurrent round: prefix operation was not inserted");
            return;
        }
    }

    let nw = 2 + rng.usize_below(3);
    let mut slices: Vec<Vec<Operation<ExtS>>> = vec![
        ops[p2 as usize..].to_vec(),
        ops[p1 as usize..p2 as usize].to_vec(),
    ];
    if nw >= 3 {
        let mut s = ops[p1 as usize..p2 as usize].to_vec();
        if rng.bool() {
            rng.shuffle(&mut s);
        }
        slices.push(s);
    }
    if nw >= 4 {
        let mut s = ops.clone();
        rng.shuffle(&mut s);
        slices.push(s);
    }
    let t0 = Instant::now();
    let mut handles = Vec::new();
    // Spawn order is randomized as well.
    let mut order: Vec<usize> = (0..slices.len()).collect();
    rng.shuffle(&mut order);
    for id in order {
        let wr = Rng::fork(seed ^ 0xBEEF ^ r.rotate_left(20), id as u64);
        handles.push(tokio::spawn(writer(store.clone(), slices[id].clone(), topic, wr, id, t0)));
    }
    let mut deliveries: Vec<Delivery> = Vec::new();
    for h in handles {
        match tokio::time::timeout(Duration::from_secs(120), h).await {
            Ok(Ok(d)) => deliveries.extend(d),
            Ok(Err(e)) => {
                rep.inconclusive(format!("concurrent round: writer task failed: {e}"));
                return;
            }
            Err(_) => {
                rep.inconclusive("watchdog: a concurrent writer did not finish within 120 s (not a verdict)");
                return;
            }
        }
    }
    deliveries.sort_by_key(|d| (d.end_us, d.writer));
    rep.bump("concurrent_deliveries", deliveries.len() as u64);

    // ---- quiescence ----
    let store_errors = deliveries
        .iter()
        .filter(|d| matches!(&d.outcome, Outcome::Rejected(e) if e.contains("critical storage failure")))
        .count() as u64;
    rep.bump("store_errors_in_ingest", store_errors);
    let prune_failed = deliveries.iter().any(|d| matches!(d.pruned, Some(Err(_))));
    if prune_failed {
        rep.bump("rounds_with_failed_prune_step", 1);
    }
    if deliveries.iter().any(|d| matches!(d.outcome, Outcome::Panicked(_))) {
        rep.bump("panics_observed", 1);
    }
    let entries: Vec<Operation<ExtS>> = match log_entries(store, &vk, log).await {
        Ok(e) => e,
        Err(e) => {
            rep.inconclusive(format!("get_log_entries failed at quiescence: {e}"));
            return;
        }
    };
    let stored: Vec<u32> = entries.iter().map(|e| e.header.seq_num).collect();
    let witness = |what: &str| -> Value {
        json!({
            "seed": seed, "round": r, "mode": "concurrent-writers", "what": what,
            "log_len": n, "older_op_p1": p1, "p1_flagged": p1_flagged, "newer_prune_point_p2": p2,
            "writers": slices.iter().map(|s| s.iter().map(|o| o.header.seq_num).collect::<Vec<_>>()).collect::<Vec<_>>(),
            "stored_at_quiescence": stored,
            "deliveries_by_completion": deliveries.iter().map(|d| format!(
                "w{} s{}{} start={}us ingest_end={}us end={}us {} pruned={:?}",
                d.writer, d.seq, if d.prune { "P" } else { "" }, d.start_us, d.ingest_end_us, d.end_us,
                d.outcome.detail(), d.pruned)).collect::<Vec<_>>(),
        })
    };

    let p_done = deliveries
        .iter()
        .filter(|d| d.prune && d.outcome.accepted() && matches!(d.pruned, Some(Ok(_))))
        .map(|d| d.seq)
        .max();
    match mode {
        Mode::C05 => {
            if let Some(p) = p_done {
                if let Some(e) = entries.iter().find(|e| e.header.seq_num < p) {
                    rep.violation(
                        "C05:stored-below-prune-point:concurrent-writers",
                        format!(
                            "after all writers finished, entry seq {} is stored although the prune-flagged operation at seq {} was ingested and its prune step completed",
                            e.header.seq_num, p
                        ),
                        witness("entry below completed prune point at quiescence"),
                    );
                }
            }
        }
        Mode::C03 => {
            for w in entries.windows(2) {
                if w[1].header.seq_num <= w[0].header.seq_num {
                    rep.violation(
                        "C03:seq-not-unique-ascending:concurrent-writers",
                        format!("stored seqs {} then {}", w[0].header.seq_num, w[1].header.seq_num),
                        witness("seq order"),
                    );
                }
            }
            for (i, e) in entries.iter().enumerate() {
                if e.header.seq_num > 0 && !e.header.extensions.prune {
                    let ok = i.checked_sub(1).map(|j| &entries[j]).is_some_and(|p| {
                        p.header.seq_num + 1 == e.header.seq_num && Some(p.hash) == e.header.backlink
                    });
                    if !ok {
                        rep.violation(
                            "C03:predecessor-not-stored:concurrent-writers",
                            format!(
                                "after all writers finished, unflagged entry seq {} is not linked to a stored predecessor",
                                e.header.seq_num
                            ),
                            witness("chain broken at quiescence"),
                        );
                    }
                }
            }
        }
    }

    // Coverage bookkeeping.
    let newer = deliveries.iter().find(|d| d.writer == 0 && d.seq == p2);
    let older = deliveries.iter().find(|d| d.writer == 1 && d.seq == p1);
    let mut nontrivial = false;
    if let (Some(nw_), Some(od)) = (newer, older) {
        match &od.outcome {
            Outcome::Inserted => rep.bump("older_op_inserted_then_pruned_or_kept", 1),
            Outcome::Rejected(_) => rep.bump("older_op_rejected", 1),
            _ => {}
        }
        let overlap = od.start_us <= nw_.end_us && nw_.start_us <= od.ingest_end_us;
        if overlap {
            rep.bump("rounds_older_and_newer_overlapped", 1);
        }
        if od.start_us > nw_.end_us {
            rep.bump("rounds_older_started_after_newer_finished", 1);
        }
        nontrivial = nw_.outcome.accepted() && (overlap || od.start_us > nw_.end_us);
    }
    let key = nontrivial.then(|| {
        (
            n,
            p1,
            p2,
            p1_flagged,
            slices.len(),
            deliveries.iter().map(|d| (d.writer, d.seq, d.outcome.tag())).collect::<Vec<_>>(),
        )
    });
    if rep.want_sample() && r % 53 == 7 {
        rep.sample(witness("sample round"));
    }
    rep.case(key);
}

pub fn run(args: &Args, mode: Mode) {
    quiet_panics();
    let rounds = args.n(400, 12_000);
    let mut rep = Report::new(args, RULE, (rounds / 10).clamp(3, 60));
    let shm = Path::new("/dev/shm");
    let tmp = if shm.is_dir() { tempfile::tempdir_in(shm) } else { tempfile::tempdir() }.expect("tempdir");
    let rt = tokio::runtime::Builder::new_multi_thread()
        .worker_threads(args.param_u64("threads", 4) as usize)
        .enable_all()
        .build()
        .expect("tokio runtime");
    rt.block_on(async {
        let per_store = 40;
        let mut r = 0;
        while r < rounds {
            let path = tmp.path().join(format!("conc-{r}.sqlite"));
            let store = new_store(Some(&path)).await;
            for _ in 0..per_store {
                if r >= rounds {
                    break;
                }
                round(&mut rep, mode, args.seed, r, &store).await;
                r += 1;
            }
            store.pool().close().await;
            let _ = std::fs::remove_file(&path);
            if rep.inconclusive.len() > 5 {
                break;
            }
        }
    });
    rep.extra("mode", json!("concurrent-writers"));
    rep.extra("rounds", json!(rounds));
    rep.finish(args);
}
