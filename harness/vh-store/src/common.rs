//! Shared pieces of the SQLite-store harness: extension types, an independent CBOR encoder for
//! the canonical unsigned header bytes, the reference validator written from the statement of
//! C01, operation builders and small store helpers (table dump, panic-catching calls).

use std::future::Future;
use std::panic::AssertUnwindSafe;

use futures::FutureExt;
use p2panda_core::{
    Body, Extensions, Hash, Header, Operation, SeqNum, Signature, SigningKey, VerifyingKey,
};
use p2panda_store::SqliteStore;
use p2panda_store::logs::LogStore;
use p2panda_stream::ingest::{IngestError, ingest_operation};
use serde::{Deserialize, Serialize};
use vh_common::Rng;

pub type TopicId = [u8; 32];
pub type LogIdT = u64;

// ---------------------------------------------------------------------------------------------
// Extension types
// ---------------------------------------------------------------------------------------------

/// Extension types the harness drives. `log` / `prune` play the role of the values the pipeline
/// extracts from the header before calling ingest.
pub trait RefExt: Extensions + PartialEq + Send + Sync + 'static {
    const NAME: &'static str;
    /// Whether the extension carries (log id, prune flag).
    const CARRIES: bool;
    fn make(log: u64, prune: bool) -> Self;
    fn log(&self) -> u64;
    fn prune(&self) -> bool;
    /// Independent CBOR encoding of the extension value (`None` = zero-sized, field omitted).
    fn ref_encode(&self, out: &mut Vec<u8>) -> bool;
}

impl RefExt for () {
    const NAME: &'static str = "unit";
    const CARRIES: bool = false;
    fn make(_log: u64, _prune: bool) -> Self {}
    fn log(&self) -> u64 {
        0
    }
    fn prune(&self) -> bool {
        false
    }
    fn ref_encode(&self, _out: &mut Vec<u8>) -> bool {
        false
    }
}

/// Named struct: serde/ciborium encode it as a CBOR map with text keys in declaration order.
#[derive(Clone, Debug, PartialEq, Eq, Serialize, Deserialize)]
pub struct ExtS {
    pub log: u64,
    pub prune: bool,
}

impl RefExt for ExtS {
    const NAME: &'static str = "struct";
    const CARRIES: bool = true;
    fn make(log: u64, prune: bool) -> Self {
        ExtS { log, prune }
    }
    fn log(&self) -> u64 {
        self.log
    }
    fn prune(&self) -> bool {
        self.prune
    }
    fn ref_encode(&self, out: &mut Vec<u8>) -> bool {
        cbor_head(out, 5, 2);
        cbor_text(out, "log");
        cbor_head(out, 0, self.log);
        cbor_text(out, "prune");
        cbor_bool(out, self.prune);
        true
    }
}

/// Tuple struct: encoded as a CBOR array.
#[derive(Clone, Debug, PartialEq, Eq, Serialize, Deserialize)]
pub struct ExtT(pub u64, pub bool);

impl RefExt for ExtT {
    const NAME: &'static str = "tuple";
    const CARRIES: bool = true;
    fn make(log: u64, prune: bool) -> Self {
        ExtT(log, prune)
    }
    fn log(&self) -> u64 {
        self.0
    }
    fn prune(&self) -> bool {
        self.1
    }
    fn ref_encode(&self, out: &mut Vec<u8>) -> bool {
        cbor_head(out, 4, 2);
        cbor_head(out, 0, self.0);
        cbor_bool(out, self.1);
        true
    }
}

// ---------------------------------------------------------------------------------------------
// Independent CBOR encoder (RFC 8949 shortest-form heads), only what a header needs.
// ---------------------------------------------------------------------------------------------

pub fn cbor_head(out: &mut Vec<u8>, major: u8, n: u64) {
    let m = major << 5;
    if n < 24 {
        out.push(m | n as u8);
    } else if n <= 0xff {
        out.push(m | 24);
        out.push(n as u8);
    } else if n <= 0xffff {
        out.push(m | 25);
        out.extend_from_slice(&(n as u16).to_be_bytes());
    } else if n <= 0xffff_ffff {
        out.push(m | 26);
        out.extend_from_slice(&(n as u32).to_be_bytes());
    } else {
        out.push(m | 27);
        out.extend_from_slice(&n.to_be_bytes());
    }
}

pub fn cbor_bytes(out: &mut Vec<u8>, b: &[u8]) {
    cbor_head(out, 2, b.len() as u64);
    out.extend_from_slice(b);
}

pub fn cbor_text(out: &mut Vec<u8>, s: &str) {
    cbor_head(out, 3, s.len() as u64);
    out.extend_from_slice(s.as_bytes());
}

pub fn cbor_bool(out: &mut Vec<u8>, b: bool) {
    out.push(if b { 0xf5 } else { 0xf4 });
}

/// Canonical bytes of the header without its signature, produced without the serializer under
/// test: `[version, verifying_key, payload_size, payload_hash?, seq_num, backlink?, extensions?]`.
pub fn canonical_unsigned<E: RefExt>(h: &Header<E>) -> Vec<u8> {
    let mut ext = Vec::new();
    let has_ext = h.extensions.ref_encode(&mut ext);
    let n = 4 + h.payload_hash.is_some() as u64 + h.backlink.is_some() as u64 + has_ext as u64;
    let mut out = Vec::with_capacity(160);
    cbor_head(&mut out, 4, n);
    cbor_head(&mut out, 0, h.version as u64);
    cbor_bytes(&mut out, h.verifying_key.as_bytes());
    cbor_head(&mut out, 0, h.payload_size as u64);
    if let Some(ph) = &h.payload_hash {
        cbor_bytes(&mut out, ph.as_bytes());
    }
    cbor_head(&mut out, 0, h.seq_num as u64);
    if let Some(bl) = &h.backlink {
        cbor_bytes(&mut out, bl.as_bytes());
    }
    out.extend_from_slice(&ext);
    out
}

/// Canonical bytes of the *signed* header (what the operation id is the BLAKE3 hash of).
pub fn canonical_signed<E: RefExt>(h: &Header<E>, sig: &Signature) -> Vec<u8> {
    let mut ext = Vec::new();
    let has_ext = h.extensions.ref_encode(&mut ext);
    let n = 5 + h.payload_hash.is_some() as u64 + h.backlink.is_some() as u64 + has_ext as u64;
    let mut out = Vec::with_capacity(230);
    cbor_head(&mut out, 4, n);
    cbor_head(&mut out, 0, h.version as u64);
    cbor_bytes(&mut out, h.verifying_key.as_bytes());
    cbor_bytes(&mut out, &sig.to_bytes());
    cbor_head(&mut out, 0, h.payload_size as u64);
    if let Some(ph) = &h.payload_hash {
        cbor_bytes(&mut out, ph.as_bytes());
    }
    cbor_head(&mut out, 0, h.seq_num as u64);
    if let Some(bl) = &h.backlink {
        cbor_bytes(&mut out, bl.as_bytes());
    }
    out.extend_from_slice(&ext);
    out
}

// ---------------------------------------------------------------------------------------------
// Reference validator (statement of C01), independent of validate_header / validate_operation.
// ---------------------------------------------------------------------------------------------

/// `Ok(())` iff the operation is authentic and well-formed by the statement; otherwise the
/// first failed condition (used as the structural part of a violation signature).
pub fn ref_format<E: RefExt>(op: &Operation<E>) -> Result<(), &'static str> {
    let h = &op.header;
    let Some(sig) = &h.signature else {
        return Err("signature");
    };
    if !h.verifying_key.verify(&canonical_unsigned(h), sig) {
        return Err("signature");
    }
    if h.version != 1 {
        return Err("version");
    }
    if h.payload_hash.is_some() != (h.payload_size > 0) {
        return Err("payload-info");
    }
    if h.backlink.is_some() != (h.seq_num > 0) {
        return Err("backlink-seq");
    }
    if let Some(body) = &op.body {
        let bytes = body.as_bytes();
        if h.payload_hash != Some(Hash::digest(bytes)) || bytes.len() as u64 != h.payload_size as u64
        {
            return Err("body");
        }
    }
    Ok(())
}

// ---------------------------------------------------------------------------------------------
// Operation builders
// ---------------------------------------------------------------------------------------------

pub fn key(rng: &mut Rng) -> SigningKey {
    SigningKey::from_bytes(&rng.array32())
}

/// Build a signed operation from explicit field values (nothing is derived, so callers can build
/// arbitrary-field headers).
pub fn build_op<E: RefExt>(
    sk: &SigningKey,
    seq: SeqNum,
    backlink: Option<Hash>,
    body: Option<&[u8]>,
    ext: E,
) -> Operation<E> {
    let (payload_size, payload_hash) = match body {
        Some(b) if !b.is_empty() => (b.len() as u32, Some(Hash::digest(b))),
        _ => (0, None),
    };
    let mut header = Header {
        version: 1,
        verifying_key: sk.verifying_key(),
        signature: None,
        payload_size,
        payload_hash,
        seq_num: seq,
        backlink,
        extensions: ext,
    };
    header.sign(sk);
    Operation {
        hash: header.hash(),
        header,
        body: match body {
            Some(b) if !b.is_empty() => Some(Body::new(b)),
            _ => None,
        },
    }
}

/// Re-sign a (mutated) header with `sk` and recompute the id as the wire path does.
pub fn resign<E: RefExt>(op: &mut Operation<E>, sk: &SigningKey) {
    op.header.sign(sk);
    op.hash = op.header.hash();
}

/// A valid log of `n` operations; `prune_at` lists the sequence numbers that carry the prune flag.
pub fn build_log<E: RefExt>(
    rng: &mut Rng,
    sk: &SigningKey,
    log: u64,
    n: usize,
    prune_at: &[u32],
) -> Vec<Operation<E>> {
    let mut out: Vec<Operation<E>> = Vec::with_capacity(n);
    let mut backlink = None;
    for seq in 0..n as u32 {
        let body = match rng.below(5) {
            0 => None,
            _ => {
                let n = 1 + rng.usize_below(40);
                Some(rng.bytes(n))
            }
        };
        let op = build_op(
            sk,
            seq,
            backlink,
            body.as_deref(),
            E::make(log, prune_at.contains(&seq)),
        );
        backlink = Some(op.hash);
        out.push(op);
    }
    out
}

pub fn flip_bit(bytes: &mut [u8], byte: usize, bit: u8) {
    bytes[byte] ^= 1 << bit;
}

pub fn short(h: &Hash) -> String {
    h.to_hex()[..10].to_string()
}

pub fn op_json<E: RefExt>(op: &Operation<E>) -> vh_common::Value {
    vh_common::json!({
        "hash": op.hash.to_hex(),
        "header_hex": vh_common::hex(&op.header.to_bytes()),
        "version": op.header.version,
        "author": op.header.verifying_key.to_hex(),
        "signature": op.header.signature.map(|s| s.to_hex()),
        "payload_size": op.header.payload_size,
        "payload_hash": op.header.payload_hash.map(|h| h.to_hex()),
        "seq_num": op.header.seq_num,
        "backlink": op.header.backlink.map(|h| h.to_hex()),
        "ext": format!("{:?}", op.header.extensions),
        "body_hex": op.body.as_ref().map(|b| vh_common::hex(b.as_bytes())),
    })
}

// ---------------------------------------------------------------------------------------------
// Store helpers
// ---------------------------------------------------------------------------------------------

/// Run a store call, turning a panic of the code under test into `Err(message)`.
pub async fn guarded<T>(fut: impl Future<Output = T>) -> Result<T, String> {
    AssertUnwindSafe(fut).catch_unwind().await.map_err(|e| {
        if let Some(s) = e.downcast_ref::<&str>() {
            s.to_string()
        } else if let Some(s) = e.downcast_ref::<String>() {
            s.clone()
        } else {
            "panic (non-string payload)".to_string()
        }
    })
}

#[derive(Debug, Clone)]
pub enum Outcome {
    Inserted,
    Exists,
    Rejected(String),
    Panicked(String),
}

impl Outcome {
    pub fn tag(&self) -> &'static str {
        match self {
            Outcome::Inserted => "inserted",
            Outcome::Exists => "exists",
            Outcome::Rejected(_) => "rejected",
            Outcome::Panicked(_) => "panicked",
        }
    }
    pub fn accepted(&self) -> bool {
        matches!(self, Outcome::Inserted | Outcome::Exists)
    }
    pub fn detail(&self) -> String {
        match self {
            Outcome::Rejected(s) | Outcome::Panicked(s) => s.clone(),
            o => o.tag().to_string(),
        }
    }
}

/// The real `ingest_operation` with the arguments the pipeline derives from the header:
/// log id and prune flag come from the extensions.
pub async fn ingest<E: RefExt>(store: &SqliteStore, op: &Operation<E>, topic: &TopicId) -> Outcome {
    let log = op.header.extensions.log();
    let prune = op.header.extensions.prune();
    let r: Result<Result<bool, IngestError>, String> = guarded(ingest_operation::<
        SqliteStore,
        Operation<E>,
        LogIdT,
        E,
        TopicId,
    >(store, op, &log, topic, prune))
    .await;
    match r {
        Ok(Ok(true)) => Outcome::Inserted,
        Ok(Ok(false)) => Outcome::Exists,
        Ok(Err(e)) => Outcome::Rejected(e.to_string()),
        Err(p) => Outcome::Panicked(p),
    }
}

/// The prune step the pipeline issues after a *completed* ingest of a prune-flagged operation.
pub async fn prune_step<E: RefExt>(
    store: &SqliteStore,
    op: &Operation<E>,
) -> Result<Result<u64, String>, String> {
    let log = op.header.extensions.log();
    guarded(async {
        <SqliteStore as LogStore<Operation<E>, VerifyingKey, LogIdT, SeqNum, Hash>>::prune_entries(
            store,
            &op.header.verifying_key,
            &log,
            &op.header.seq_num,
        )
        .await
        .map_err(|e| e.to_string())
    })
    .await
}

/// Full content of `operations_v1` and `topics_v1`, one text line per row (SQL `quote()` of
/// every column), read with raw sqlx on the store's pool.
pub async fn dump(store: &SqliteStore) -> Result<Vec<String>, String> {
    let mut out = Vec::new();
    let ops: Vec<String> = sqlx::query_scalar(
        "SELECT 'op|' || quote(hash) || '|' || quote(log_id) || '|' || quote(version) || '|' ||
                quote(verifying_key) || '|' || quote(signature) || '|' || quote(payload_size) ||
                '|' || quote(payload_hash) || '|' || quote(seq_num) || '|' || quote(header) ||
                '|' || quote(header_size) || '|' || quote(body)
         FROM operations_v1 ORDER BY hash, rowid",
    )
    .fetch_all(store.pool())
    .await
    .map_err(|e| e.to_string())?;
    out.extend(ops);
    let topics: Vec<String> = sqlx::query_scalar(
        "SELECT 'tp|' || quote(topic) || '|' || quote(author) || '|' || quote(data_id)
         FROM topics_v1 ORDER BY 1",
    )
    .fetch_all(store.pool())
    .await
    .map_err(|e| e.to_string())?;
    out.extend(topics);
    Ok(out)
}

/// Remove every row of the two tables ingest writes to (re-use of one store across small cases).
pub async fn wipe(store: &SqliteStore) -> Result<(), String> {
    for t in ["operations_v1", "topics_v1", "cursors_v1"] {
        sqlx::query(&format!("DELETE FROM {t}"))
            .execute(store.pool())
            .await
            .map_err(|e| e.to_string())?;
    }
    Ok(())
}

/// All entries of one log through the store's query API: (seq, hash, backlink, prune flag).
pub async fn log_entries<E: RefExt>(
    store: &SqliteStore,
    author: &VerifyingKey,
    log: u64,
) -> Result<Vec<Operation<E>>, String> {
    let r = guarded(async {
        <SqliteStore as LogStore<Operation<E>, VerifyingKey, LogIdT, SeqNum, Hash>>::get_log_entries(
            store, author, &log, None, None,
        )
        .await
        .map_err(|e| e.to_string())
    })
    .await??;
    Ok(r.unwrap_or_default().into_iter().map(|(op, _)| op).collect())
}

pub async fn log_heights<E: RefExt>(
    store: &SqliteStore,
    author: &VerifyingKey,
    logs: &[u64],
) -> Result<std::collections::BTreeMap<u64, SeqNum>, String> {
    let r = guarded(async {
        <SqliteStore as LogStore<Operation<E>, VerifyingKey, LogIdT, SeqNum, Hash>>::get_log_heights(
            store, author, logs,
        )
        .await
        .map_err(|e| e.to_string())
    })
    .await??;
    Ok(r.unwrap_or_default())
}

pub fn runtime() -> tokio::runtime::Runtime {
    tokio::runtime::Builder::new_current_thread()
        .enable_all()
        .build()
        .expect("tokio runtime")
}

/// Store for a case: in-memory (one connection) or a file database in `dir` (pool of several
/// connections, the production configuration).
pub async fn new_store(file_in: Option<&std::path::Path>) -> SqliteStore {
    match file_in {
        None => SqliteStore::temporary().await,
        Some(p) => {
            let url = format!("sqlite://{}?mode=rwc", p.display());
            p2panda_store::sqlite::SqliteStoreBuilder::new()
                .database_url(&url)
                .build()
                .await
                .expect("file database")
        }
    }
}
