//! C09: operation / topic / cursor stores behave like a map, a set of triples and a map of
//! named cursors. Command machine compared step by step with in-memory collections.

use std::collections::{BTreeMap, BTreeSet, HashMap, HashSet};

use p2panda_core::logs::LogHeights;
use p2panda_core::{Cursor, Hash, Operation, VerifyingKey};
use p2panda_store::cursors::CursorStore;
use p2panda_store::operations::OperationStore;
use p2panda_store::topics::TopicStore;
use p2panda_store::{SqliteStore, Transaction};
use vh_common::{Args, Report, Rng, Value, json, quiet_panics};

use crate::c08::gen_pool;
use crate::common::*;
use crate::par::{Local, run_cases};

const RULE: &str = "Each machine: fresh SqliteStore (every 10th on a file database), pool of valid operations \
(3 authors x 3 logs), 4 topics, 6 cursor names (incl. empty, case variants, unicode, SQL wildcard). 40 random \
commands: insert (fresh / duplicate / same id with the body dropped or present / rolled back), delete, delete \
payload, has/get (plain and _tx), associate / remove / resolve, set / get / delete cursor. Every boolean and \
every read is compared with HashMap / HashSet models; after each command the touched key plus a random \
sample is read back, every 8th command and at the end everything. Non-trivial = the machine performed a \
duplicate insert, a delete of a present operation, a repeated association, a cursor overwrite and a read \
after each; distinct = the command trace.";

type T = [u8; 32];
type L = u64;

macro_rules! opstore {
    ($m:ident ( $store:expr $(, $a:expr)* )) => {
        <SqliteStore as OperationStore<Operation<ExtS>, Hash>>::$m($store $(, $a)*)
    };
}
macro_rules! topicstore {
    ($m:ident ( $store:expr $(, $a:expr)* )) => {
        <SqliteStore as TopicStore<T, VerifyingKey, L>>::$m($store $(, $a)*)
    };
}
macro_rules! cursorstore {
    ($m:ident ( $store:expr $(, $a:expr)* )) => {
        <SqliteStore as CursorStore<VerifyingKey, L>>::$m($store $(, $a)*)
    };
}

/// Run `$body` (which evaluates to `Result<_, String>`) inside begin/commit (or rollback).
macro_rules! in_tx {
    ($store:expr, $rollback:expr, $body:expr) => {{
        guarded(async {
            let permit = $store.begin().await.map_err(|e| e.to_string())?;
            let r = $body;
            if $rollback {
                $store.rollback(permit).await.map_err(|e| e.to_string())?;
            } else {
                $store.commit(permit).await.map_err(|e| e.to_string())?;
            }
            r
        })
        .await
    }};
}

#[derive(Clone, PartialEq, Debug)]
struct MOp {
    header: Vec<u8>,
    body: Option<Vec<u8>>,
}

struct Mach<'a> {
    rep: &'a mut Local,
    store: SqliteStore,
    ops: HashMap<Hash, MOp>,
    topics: HashSet<(T, [u8; 32], L)>,
    cursors: HashMap<String, Cursor<VerifyingKey, L>>,
    trace: Vec<String>,
    seed: u64,
    machine: u64,
    feats: BTreeSet<&'static str>,
}

impl Mach<'_> {
    fn bad(&mut self, sig: &str, what: String, query: Value) {
        let w = json!({"seed": self.seed, "machine": self.machine, "commands": self.trace, "query": query});
        self.rep.violation(sig, what, w);
    }

    fn settle<V>(&mut self, method: &str, r: Result<Result<V, String>, String>) -> Option<V> {
        self.rep.bump("store_calls", 1);
        match r {
            Ok(Ok(v)) => Some(v),
            Ok(Err(e)) => {
                self.bad(&format!("C09:error:{method}"), format!("{method} returned an error: {e}"), json!(method));
                None
            }
            Err(p) => {
                self.bad(&format!("C09:panic:{method}"), format!("{method} panicked: {p}"), json!(method));
                None
            }
        }
    }

    fn expect_bool(&mut self, method: &str, got: bool, want: bool, q: Value) {
        self.rep.bump("comparisons", 1);
        if got != want {
            self.bad(
                &format!("C09:mismatch:{method}"),
                format!("{method} returned {got}, the abstract collection says {want}"),
                q,
            );
        }
    }

    async fn read_op(&mut self, id: &Hash, tx: bool) {
        let s = self.store.clone();
        let want = self.ops.get(id).cloned();
        let (has, get) = if tx {
            let r = in_tx!(s, true, {
                let h = opstore!(has_operation_tx(&s, id)).await.map_err(|e| e.to_string());
                let g = opstore!(get_operation_tx(&s, id)).await.map_err(|e| e.to_string());
                h.and_then(|h| g.map(|g| (h, g)))
            });
            match self.settle("has/get_operation_tx", r) {
                Some(x) => x,
                None => return,
            }
        } else {
            let r = guarded(async { opstore!(has_operation(&s, id)).await.map_err(|e| e.to_string()) }).await;
            let Some(h) = self.settle("has_operation", r) else { return };
            let r = guarded(async { opstore!(get_operation(&s, id)).await.map_err(|e| e.to_string()) }).await;
            let Some(g) = self.settle("get_operation", r) else { return };
            (h, g)
        };
        let m = if tx { "has_operation_tx" } else { "has_operation" };
        self.expect_bool(m, has, want.is_some(), json!({"id": id.to_hex()}));
        let got = get.as_ref().map(|g| MOp {
            header: g.header.to_bytes(),
            body: g.body.as_ref().map(|b| b.to_bytes()),
        });
        self.rep.bump("comparisons", 1);
        let id_ok = get.as_ref().is_none_or(|g| g.hash == *id);
        if got != want || !id_ok {
            let m = if tx { "get_operation_tx" } else { "get_operation" };
            self.bad(
                &format!("C09:mismatch:{m}"),
                format!(
                    "read back differs: store {:?} (id ok: {id_ok}), map {:?}",
                    got.as_ref().map(|g| (g.header.len(), g.body.as_ref().map(|b| vh_common::hex(b)))),
                    want.as_ref().map(|g| (g.header.len(), g.body.as_ref().map(|b| vh_common::hex(b))))
                ),
                json!({"id": id.to_hex()}),
            );
        }
    }

    async fn read_topic(&mut self, topic: &T) {
        let s = self.store.clone();
        let r = guarded(async { topicstore!(resolve(&s, topic)).await.map_err(|e| e.to_string()) }).await;
        let Some(got) = self.settle("resolve", r) else { return };
        let mut want: BTreeMap<[u8; 32], BTreeSet<L>> = BTreeMap::new();
        for (t, a, l) in &self.topics {
            if t == topic {
                want.entry(*a).or_default().insert(*l);
            }
        }
        let mut dup = false;
        let mut got_set: BTreeMap<[u8; 32], BTreeSet<L>> = BTreeMap::new();
        for (a, ls) in &got {
            let e = got_set.entry(*a.as_bytes()).or_default();
            for l in ls {
                dup |= !e.insert(*l);
            }
            if ls.is_empty() {
                dup = true;
            }
        }
        self.rep.bump("comparisons", 1);
        if got_set != want || dup {
            self.bad(
                "C09:mismatch:resolve",
                format!("resolve: store {} authors (duplicates/empty: {dup}), set model {} authors", got_set.len(), want.len()),
                json!({"topic": vh_common::hex(topic), "store": format!("{got_set:?}"), "model": format!("{want:?}")}),
            );
        }
    }

    async fn read_cursor(&mut self, name: &str) {
        let s = self.store.clone();
        let r = guarded(async { cursorstore!(get_cursor(&s, name)).await.map_err(|e| e.to_string()) }).await;
        let Some(got) = self.settle("get_cursor", r) else { return };
        let want = self.cursors.get(name);
        self.rep.bump("comparisons", 1);
        if got.as_ref() != want {
            self.bad(
                "C09:mismatch:get_cursor",
                format!("cursor {name:?}: store {got:?}, last written {want:?}"),
                json!({"name": name}),
            );
        }
    }
}

async fn machine(rep: &mut Local, args: &Args, n: u64, dir: &std::path::Path) {
    let mut rng = Rng::fork(args.seed ^ 0xC09, n);
    let pool = gen_pool(&mut rng);
    let file = (n % 10 == 9).then(|| dir.join(format!("m{n}.sqlite")));
    let store = new_store(file.as_deref()).await;
    let topics: Vec<T> = vec![[0; 32], [1; 32], rng.array32(), [255; 32]];
    let names: Vec<String> = ["", "a", "A", "a b", "c%_\u{1F43C}", "a\0b"]
        .iter()
        .map(|s| s.to_string())
        .collect();
    let ids: Vec<Hash> = pool.ops.iter().map(|o| o.hash).collect();
    let mut m = Mach {
        rep,
        store: store.clone(),
        ops: HashMap::new(),
        topics: HashSet::new(),
        cursors: HashMap::new(),
        trace: Vec::new(),
        seed: args.seed,
        machine: n,
        feats: BTreeSet::new(),
    };
    let steps = args.param_u64("commands", 40);
    for step in 0..steps {
        let s = store.clone();
        // Bias towards keys that are already present so that duplicates/deletes hit.
        let op = if !m.ops.is_empty() && rng.chance(0.45) {
            let present: Vec<&Hash> = {
                let mut v: Vec<&Hash> = m.ops.keys().collect();
                v.sort();
                v
            };
            let h = **rng.pick(&present);
            pool.ops.iter().find(|o| o.hash == h).unwrap().clone()
        } else {
            rng.pick(&pool.ops).clone()
        };
        let id = op.hash;
        let topic = *rng.pick(&topics);
        let name = rng.pick(&names).clone();
        match rng.below(20) {
            0..=5 => {
                let mut ins = op.clone();
                let variant = rng.below(6);
                if variant == 0 {
                    ins.body = None;
                }
                let rollback = variant == 1;
                let log = if variant == 2 { 77 } else { op.header.extensions.log };
                m.trace.push(format!(
                    "insert{} {} body={}",
                    if rollback { "+rollback" } else { "" },
                    short(&id),
                    ins.body.is_some()
                ));
                let want = !m.ops.contains_key(&id);
                if !want {
                    m.feats.insert("duplicate-insert");
                }
                let r = in_tx!(s, rollback, opstore!(insert_operation(&s, &id, &ins, &log)).await.map_err(|e| e.to_string()));
                if let Some(got) = m.settle("insert_operation", r) {
                    m.expect_bool("insert_operation", got, want, json!({"op": op_json(&ins)}));
                    if want && !rollback {
                        m.ops.insert(
                            id,
                            MOp {
                                header: ins.header.to_bytes(),
                                body: ins.body.as_ref().map(|b| b.to_bytes()),
                            },
                        );
                    }
                }
                m.read_op(&id, false).await;
            }
            6..=7 => {
                let rollback = rng.chance(0.15);
                m.trace.push(format!("delete{} {}", if rollback { "+rollback" } else { "" }, short(&id)));
                let want = m.ops.contains_key(&id);
                if want {
                    m.feats.insert("delete-present");
                }
                let r = in_tx!(s, rollback, opstore!(delete_operation(&s, &id)).await.map_err(|e| e.to_string()));
                if let Some(got) = m.settle("delete_operation", r) {
                    m.expect_bool("delete_operation", got, want, json!({"id": id.to_hex()}));
                    if !rollback {
                        m.ops.remove(&id);
                    }
                }
                m.read_op(&id, step % 2 == 0).await;
            }
            8..=9 => {
                m.trace.push(format!("delete-payload {}", short(&id)));
                let want = m.ops.contains_key(&id);
                let r = guarded(async { opstore!(delete_operation_payload(&s, &id)).await.map_err(|e| e.to_string()) }).await;
                if let Some(got) = m.settle("delete_operation_payload", r) {
                    m.expect_bool("delete_operation_payload", got, want, json!({"id": id.to_hex()}));
                    if let Some(o) = m.ops.get_mut(&id) {
                        o.body = None;
                        m.feats.insert("payload-deleted");
                    }
                }
                m.read_op(&id, false).await;
            }
            10..=12 => {
                let (mut author, mut log) = (rng.pick(&pool.authors).verifying_key(), *rng.pick(&pool.logs));
                let mut topic = topic;
                if !m.topics.is_empty() && rng.chance(0.35) {
                    let mut v: Vec<_> = m.topics.iter().cloned().collect();
                    v.sort();
                    let k = *rng.pick(&v);
                    (topic, author, log) = (k.0, VerifyingKey::from_bytes(&k.1).expect("key"), k.2);
                }
                let rollback = rng.chance(0.1);
                m.trace.push(format!(
                    "associate{} t{} a{} l{log}",
                    if rollback { "+rollback" } else { "" },
                    topic[0],
                    &author.to_hex()[..6]
                ));
                let k = (topic, *author.as_bytes(), log);
                let want = !m.topics.contains(&k);
                if !want {
                    m.feats.insert("repeated-association");
                }
                let r = in_tx!(s, rollback, topicstore!(associate(&s, &topic, &author, &log)).await.map_err(|e| e.to_string()));
                if let Some(got) = m.settle("associate", r) {
                    m.expect_bool("associate", got, want, json!({"topic": topic[0], "log": log}));
                    if !rollback {
                        m.topics.insert(k);
                    }
                }
                m.read_topic(&topic).await;
            }
            13..=14 => {
                // Prefer an existing triple.
                let k = if !m.topics.is_empty() && rng.chance(0.7) {
                    let mut v: Vec<_> = m.topics.iter().cloned().collect();
                    v.sort();
                    *rng.pick(&v)
                } else {
                    (topic, *rng.pick(&pool.authors).verifying_key().as_bytes(), *rng.pick(&pool.logs))
                };
                let author = VerifyingKey::from_bytes(&k.1).expect("key");
                m.trace.push(format!("remove t{} a{} l{}", k.0[0], &author.to_hex()[..6], k.2));
                let want = m.topics.contains(&k);
                if want {
                    m.feats.insert("remove-present");
                }
                let r = in_tx!(s, false, topicstore!(remove(&s, &k.0, &author, &k.2)).await.map_err(|e| e.to_string()));
                if let Some(got) = m.settle("remove", r) {
                    m.expect_bool("remove", got, want, json!({"topic": k.0[0], "log": k.2}));
                    m.topics.remove(&k);
                }
                m.read_topic(&k.0).await;
            }
            15..=17 => {
                let mut state: LogHeights<VerifyingKey, L> = BTreeMap::new();
                for _ in 0..rng.below(4) {
                    state
                        .entry(rng.pick(&pool.authors).verifying_key())
                        .or_default()
                        .insert(*rng.pick(&pool.logs), rng.mag(32) as u32);
                }
                let cursor = Cursor::new(&name, state);
                let rollback = rng.chance(0.1);
                m.trace.push(format!("set-cursor{} {name:?} {:?}", if rollback { "+rollback" } else { "" }, cursor.state().values().map(|v| v.len()).collect::<Vec<_>>()));
                if m.cursors.contains_key(&name) {
                    m.feats.insert("cursor-overwrite");
                }
                let r = in_tx!(s, rollback, cursorstore!(set_cursor(&s, &cursor)).await.map_err(|e| e.to_string()));
                if m.settle("set_cursor", r).is_some() && !rollback {
                    m.cursors.insert(name.clone(), cursor);
                }
                m.read_cursor(&name).await;
            }
            18 => {
                m.trace.push(format!("delete-cursor {name:?}"));
                let r = in_tx!(s, false, cursorstore!(delete_cursor(&s, &name)).await.map_err(|e| e.to_string()));
                if m.settle("delete_cursor", r).is_some() {
                    m.cursors.remove(&name);
                }
                m.read_cursor(&name).await;
            }
            _ => {
                m.trace.push(format!("read {}", short(&id)));
                m.read_op(&id, true).await;
            }
        }

        // Reads: random sample every step, everything every 8th step and at the end.
        if step % 8 == 7 || step + 1 == steps {
            for id in &ids {
                m.read_op(id, false).await;
            }
            for t in &topics {
                m.read_topic(t).await;
            }
            for nm in &names {
                m.read_cursor(nm).await;
            }
        } else {
            for _ in 0..3 {
                let id = *rng.pick(&ids);
                m.read_op(&id, false).await;
            }
            let t = *rng.pick(&topics);
            m.read_topic(&t).await;
            let nm = rng.pick(&names).clone();
            m.read_cursor(&nm).await;
        }
    }
    let nontrivial = ["duplicate-insert", "delete-present", "repeated-association", "cursor-overwrite"]
        .iter()
        .all(|f| m.feats.contains(f));
    let key = nontrivial.then(|| m.trace.clone());
    if m.rep.want_sample() && n % 61 == 5 {
        let t = m.trace.clone();
        m.rep.sample(json!({"machine": n, "commands": t}));
    }
    m.rep.bump("commands", steps);
    m.rep.case(key);
    store.pool().close().await;
    if let Some(f) = file {
        let _ = std::fs::remove_file(f);
    }
}

pub fn run(args: &Args) {
    quiet_panics();
    let machines = args.n(300, 10_000);
    let mut rep = Report::new(args, RULE, (machines / 4).clamp(2, 50));
    let tmp = tempfile::tempdir().expect("tempdir");
    let dir = tmp.path();
    run_cases(args, &mut rep, machines, |local, n, rt| {
        rt.block_on(async {
            let r = tokio::time::timeout(std::time::Duration::from_secs(300), machine(local, args, n, dir)).await;
            if r.is_err() {
                local.inconclusive(format!("watchdog: machine {n} exceeded 300 s (not a verdict)"));
            }
        })
    });
    rep.finish(args);
}
