//! C18 (third part) — the REAL `AddressBookDiscovery::publish` (hook H7) over a real `AddressBook`
//! under the mock clock: bursts of 2..6 `publish` calls with different endpoint data, issued back
//! to back without awaiting (publish spawns a task per call), clock held / stepped back / stepped
//! forward between bursts.
//!
//! Oracle at quiescence (no task alive on the runtime, bounded wait): every successive
//! self-published record is accepted as newer, so the node's own stored record carries the
//! addresses of the LAST publish call, and its timestamp is strictly greater than the one stored
//! before the burst.
//!
//! Everything runs on one current-thread runtime so that the spawned publish tasks read the same
//! thread-local mock clock the harness sets.

use std::net::SocketAddr;
use std::time::{Duration, Instant};

use iroh::TransportAddr;
use iroh::address_lookup::{AddressLookup, EndpointData};
use mock_instant::thread_local::MockClock;
use p2panda_core::SigningKey;
use p2panda_net::AddressBook;
use p2panda_net::addrs::{NodeTransportInfo, TransportAddress, TransportInfo};
use p2panda_net::iroh_endpoint::AddressBookDiscovery;
use vh_common::{Args, Report, Rng, json};

fn set_clock(micros: u64) {
    MockClock::set_system_time(Duration::from_micros(micros));
}

fn sock(port: u16) -> SocketAddr {
    SocketAddr::from(([127, 0, 0, 1], port))
}

/// Wait until the runtime's alive-task count is back at its value from before the burst (the
/// publish tasks have finished; the address book keeps a few long-lived tasks). Bounded.
async fn quiesce(baseline: usize) -> bool {
    let handle = tokio::runtime::Handle::current();
    let t0 = Instant::now();
    loop {
        tokio::time::sleep(Duration::from_millis(1)).await;
        if handle.metrics().num_alive_tasks() <= baseline {
            return true;
        }
        if t0.elapsed() > Duration::from_secs(10) {
            return false;
        }
    }
}

pub fn run_part(args: &Args, rep: &mut Report, rt: &tokio::runtime::Runtime) {
    let nodes = args.n(40, 1500);
    let book = rt.block_on(AddressBook::builder().spawn()).expect("address book spawns offline");
    let mut bursts_total = 0u64;
    let mut publishes_total = 0u64;
    'nodes: for n in 0..nodes {
        let mut rng = Rng::fork(args.seed ^ 0x18b0, n);
        let key = SigningKey::from_bytes(&rng.array32());
        let id = key.verifying_key();
        let mut clock = match rng.below(2) {
            0 => 1_000 + rng.below(1_000_000),
            _ => 1_700_000_000_000_000 + rng.below(1 << 40),
        };
        let mut port: u16 = 1000;
        let mut trace: Vec<String> = Vec::new();
        let bursts = 3 + rng.usize_below(4);
        let mut concurrent_bursts = 0u64;
        let outcome: Result<(), (String, String)> = rt.block_on(async {
            let discovery = AddressBookDiscovery::new(key.clone(), book.clone());
            let mut before: Option<TransportInfo> = None;
            for b in 0..bursts {
                let how = match rng.below(4) {
                    0 | 1 => "held",
                    2 => {
                        clock = clock.saturating_sub(1 + rng.mag(30));
                        "stepped-back"
                    }
                    _ => {
                        clock += 1 + rng.mag(24);
                        "stepped-forward"
                    }
                };
                set_clock(clock);
                let k = 2 + rng.usize_below(5);
                let baseline = tokio::runtime::Handle::current().metrics().num_alive_tasks();
                let first_port = port + 1;
                for _ in 0..k {
                    port += 1;
                    discovery.publish(&EndpointData::new(vec![TransportAddr::Ip(sock(port))]));
                }
                concurrent_bursts += 1;
                if !quiesce(baseline).await {
                    return Err(("inconclusive".to_string(), format!("publish tasks of burst {b} still alive after 10 s")));
                }
                let stored = book.node_info(id).await.expect("node_info").and_then(|i| i.transports);
                let want = vec![TransportAddress::from_iroh(id, None, [sock(port)])];
                let got_addrs = stored.as_ref().map(|t| t.addresses());
                trace.push(format!(
                    "burst {b}: clock {clock} ({how}), publish ports {first_port}..={port}, stored ts {:?} addrs {:?}",
                    stored.as_ref().map(|t| t.timestamp().to_string()),
                    got_addrs.as_ref().map(|a| a.iter().map(|x| x.to_string()).collect::<Vec<_>>())
                ));
                if got_addrs.as_ref() != Some(&want) {
                    return Err((
                        "C18:self-published-record-dropped:concurrent-publish".to_string(),
                        format!("after a burst of {k} publish calls (clock {how}) the node's own record does not carry the addresses of the last publish (port {port}); stored: {:?}",
                                got_addrs.map(|a| a.iter().map(|x| x.to_string()).collect::<Vec<_>>())),
                    ));
                }
                if let (Some(prev), Some(now)) = (&before, &stored) {
                    if !(now.timestamp() > prev.timestamp()) {
                        return Err((
                            "C18:self-published-record-timestamp-not-increasing".to_string(),
                            format!("stored timestamp {} after the burst is not greater than {} before it", now.timestamp(), prev.timestamp()),
                        ));
                    }
                }
                before = stored;
                bursts_total += 1;
                publishes_total += k as u64;
            }
            Ok(())
        });
        rep.case(Some(("publish-bursts", n, concurrent_bursts)));
        match outcome {
            Ok(()) => {}
            Err((sig, what)) if sig == "inconclusive" => {
                rep.inconclusive(format!("AddressBookDiscovery part: {what}"));
                break 'nodes;
            }
            Err((sig, what)) => {
                rep.violation(
                    &sig,
                    format!("node {n}: {what}"),
                    json!({"seed": args.seed, "part": "AddressBookDiscovery::publish bursts", "node": n, "trace": trace}),
                );
            }
        }
        if n == 0 {
            rep.sample(json!({"part": "AddressBookDiscovery::publish bursts", "trace": trace}));
        }
    }
    rep.extra("discovery_publish_bursts", json!(bursts_total));
    rep.extra("discovery_publish_calls", json!(publishes_total));
}
