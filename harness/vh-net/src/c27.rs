//! C27 — the address book keeps the newest authentic transport info per node.
//!
//! Oracle (from the statement): a strict last-write-wins register over the *authentic* records
//! (signed by the node, or trusted and naming the node): a delivered record replaces the stored one
//! only if it is authentic and its timestamp is strictly greater; forged / mismatched / tampered
//! records return `Err` and leave the stored `NodeInfo` unchanged; `is_newer` says whether the
//! record became the stored one. Independent cross-check: stored timestamp == maximum timestamp of
//! the authentic records delivered so far.
//!
//! Two paths: `NodeInfo::update_transports` (pure) and `AddressBook::insert_transport_info`
//! (actor + SQLite, state read back through `AddressBook::node_info`).

use std::net::SocketAddr;

use p2panda_core::timestamp::{HybridTimestamp, LamportTimestamp};
use p2panda_core::{SigningKey, Timestamp};
use p2panda_net::AddressBook;
use p2panda_net::addrs::{
    NodeInfo, NodeTransportInfo, TransportAddress, TransportInfo, TrustedTransportInfo,
    UnsignedTransportInfo,
};
use vh_common::{Args, Report, Rng, Value, json, permutations};

#[derive(Clone)]
struct Rec {
    info: TransportInfo,
    authentic: bool,
    kind: &'static str,
    ts: HybridTimestamp,
}

fn addr_for(id: p2panda_net::NodeId, tag: u16, relay: bool) -> TransportAddress {
    let sock = SocketAddr::from(([10, (tag >> 8) as u8, tag as u8, 1], 4000 + tag));
    let relay = if relay { Some("https://my.relay.net".parse().unwrap()) } else { None };
    TransportAddress::from_iroh(id, relay, [sock])
}

fn signed(key: &SigningKey, names: p2panda_net::NodeId, ts: HybridTimestamp, tag: u16, relay: bool) -> TransportInfo {
    let mut u = UnsignedTransportInfo::from_addrs([addr_for(names, tag, relay)]);
    u.timestamp = ts;
    TransportInfo::Authenticated(u.sign(key).expect("sign"))
}

fn trusted(names: p2panda_net::NodeId, ts: HybridTimestamp, tag: u16) -> TransportInfo {
    let mut t = TrustedTransportInfo::from_addrs([addr_for(names, tag, false)]);
    t.timestamp = ts;
    TransportInfo::Trusted(t)
}

struct Set {
    key: SigningKey,
    recs: Vec<Rec>,
}

fn gen_set(rng: &mut Rng, small: bool) -> Set {
    let key = SigningKey::from_bytes(&rng.array32());
    let other = SigningKey::from_bytes(&rng.array32());
    let id = key.verifying_key();
    let base = match rng.below(3) {
        0 => rng.below(10),
        1 => 1_700_000_000_000_000 + rng.below(1 << 30),
        _ => rng.next_u64() >> (1 + rng.below(40)),
    };
    // Distinct hybrid timestamps, several sharing the wall part.
    let n_auth = if small { 3 + rng.usize_below(2) } else { 3 + rng.usize_below(5) };
    let mut stamps: Vec<(u64, u64)> = Vec::new();
    while stamps.len() < n_auth {
        let s = (base + rng.below(3), rng.below(4));
        if !stamps.contains(&s) {
            stamps.push(s);
        }
    }
    let hts = |(w, l): (u64, u64)| HybridTimestamp::from_parts(Timestamp::new(w), LamportTimestamp::new(l));
    let mut recs = Vec::new();
    let mut tag = 0u16;
    for &s in &stamps {
        tag += 1;
        let ts = hts(s);
        if !recs.is_empty() && rng.chance(0.25) {
            recs.push(Rec { info: trusted(id, ts, tag), authentic: true, kind: "trusted", ts });
        } else {
            recs.push(Rec { info: signed(&key, id, ts, tag, rng.bool()), authentic: true, kind: "signed", ts });
        }
    }
    // An authentic record with an already used timestamp but other content (must never replace).
    if rng.chance(0.6) {
        tag += 1;
        let ts = hts(*rng.pick(&stamps));
        recs.push(Rec { info: signed(&key, id, ts, tag, true), authentic: true, kind: "signed-equal-timestamp", ts });
    }
    let n_bad = if small { 1 + rng.usize_below(2) } else { 1 + rng.usize_below(3) };
    let max_wall = stamps.iter().map(|s| s.0).max().unwrap();
    for _ in 0..n_bad {
        tag += 1;
        // Mostly newer than everything authentic, so that acceptance would be visible.
        let ts = if rng.chance(0.75) { hts((max_wall + 1 + rng.below(5), rng.below(3))) } else { hts((base + rng.below(3), 4 + rng.below(3))) };
        // Half of the forgeries keep signature and timestamp of an authentic signed record and only
        // alter its address *list* (what an intermediary relaying the record can do): the signed
        // content then differs from what would be stored, so the record must be rejected whatever
        // its timestamp is relative to the stored one.
        if rng.bool() {
            let sources: Vec<usize> = recs.iter().enumerate().filter(|(_, r)| r.kind == "signed").map(|(i, _)| i).collect();
            // prefer the newest authentic record as source half of the time (acceptance would replace)
            let src = if rng.bool() { *sources.iter().max_by_key(|&&i| recs[i].ts).unwrap() } else { *rng.pick(&sources) };
            let TransportInfo::Authenticated(mut a) = recs[src].info.clone() else { unreachable!() };
            let orig = a.addresses[0].clone();
            let evil = addr_for(id, tag + 700, rng.bool());
            let evil2 = addr_for(id, tag + 800, false);
            let evil_other = addr_for(other.verifying_key(), tag + 700, false);
            let kind = match rng.below(7) {
                0 => { a.addresses = vec![evil, orig]; "addrlist-prepended" }
                1 => { a.addresses = vec![evil_other, orig]; "addrlist-prepended-other-node" }
                2 => { a.addresses = vec![orig, evil]; "addrlist-appended" }
                3 => { a.addresses = vec![orig.clone(), orig]; "addrlist-duplicated" }
                4 => { a.addresses = vec![evil, evil2, orig]; "addrlist-inserted-before" }
                5 => { a.addresses = vec![evil, orig, evil2]; "addrlist-inserted-around" }
                _ => { a.addresses = vec![orig.clone(), evil, orig]; "addrlist-replaced-copy-kept" }
            };
            let ts = a.timestamp;
            recs.push(Rec { info: TransportInfo::Authenticated(a), authentic: false, kind, ts });
            continue;
        }
        let (info, kind) = match rng.below(5) {
            0 => (signed(&other, id, ts, tag, false), "forged-other-key-names-victim"),
            1 => (signed(&other, other.verifying_key(), ts, tag, false), "foreign-valid-record-of-other-node"),
            2 => {
                let TransportInfo::Authenticated(mut a) = signed(&key, id, hts(stamps[0]), tag, false) else { unreachable!() };
                a.timestamp = ts;
                (TransportInfo::Authenticated(a), "tampered-timestamp")
            }
            3 => {
                let TransportInfo::Authenticated(mut a) = signed(&key, id, ts, tag, false) else { unreachable!() };
                a.addresses = vec![addr_for(id, tag + 500, true)];
                (TransportInfo::Authenticated(a), "tampered-addresses")
            }
            _ => (trusted(other.verifying_key(), ts, tag), "trusted-names-other-node"),
        };
        recs.push(Rec { info, authentic: false, kind, ts });
    }
    Set { key, recs }
}

fn orders(rng: &mut Rng, n: usize, cap: usize) -> (Vec<Vec<usize>>, bool) {
    if n <= 6 {
        let mut all = permutations(n);
        if all.len() <= cap {
            return (all, true);
        }
        rng.shuffle(&mut all);
        all.truncate(cap);
        return (all, false);
    }
    let mut out: Vec<Vec<usize>> = vec![(0..n).collect(), (0..n).rev().collect()];
    while out.len() < cap {
        let mut p: Vec<usize> = (0..n).collect();
        rng.shuffle(&mut p);
        out.push(p);
    }
    (out, false)
}

/// Reference register, written from the statement.
#[derive(Default)]
struct Model {
    cur: Option<usize>,
    max_ts: Option<HybridTimestamp>,
}

enum Expect {
    Reject,
    Accept { is_newer: bool },
}

impl Model {
    fn deliver(&mut self, recs: &[Rec], i: usize) -> Expect {
        let r = &recs[i];
        if !r.authentic {
            return Expect::Reject;
        }
        self.max_ts = Some(self.max_ts.map_or(r.ts, |m| m.max(r.ts)));
        let newer = match self.cur {
            None => true,
            Some(c) => r.ts > recs[c].ts,
        };
        if newer {
            self.cur = Some(i);
        }
        Expect::Accept { is_newer: newer }
    }
}

fn describe(set: &Set, order: &[usize]) -> Value {
    json!(order.iter().map(|&i| json!({"rec": i, "kind": set.recs[i].kind, "ts": set.recs[i].ts.to_string()})).collect::<Vec<_>>())
}

/// Judge one step. `before`/`after` are the stored transports, `result` the API's answer.
#[allow(clippy::too_many_arguments)]
fn judge(
    rep: &mut Report,
    path: &str,
    set: &Set,
    order: &[usize],
    step: usize,
    model: &Model,
    expect: &Expect,
    result: &Result<bool, String>,
    before: &Option<TransportInfo>,
    after: &Option<TransportInfo>,
    witness: &Value,
) -> bool {
    let r = &set.recs[order[step]];
    let mut w = witness.clone();
    w["path"] = json!(path);
    w["step"] = json!(step);
    w["order"] = describe(set, order);
    w["result"] = json!(format!("{result:?}"));
    w["stored_after"] = json!(after.as_ref().map(|t| t.to_string()));
    let mut bad = |sig: String, what: String| {
        rep.violation(&sig, format!("[{path}] step {step} ({}, ts {}): {what}", r.kind, r.ts), w.clone());
    };
    match (expect, result) {
        (Expect::Reject, Ok(_)) => {
            bad(format!("C27:forged-record-accepted:{}", r.kind), "a non-authentic record was accepted".into());
            return false;
        }
        (Expect::Reject, Err(_)) => {
            if before != after {
                bad("C27:state-changed-on-rejected-record".into(), "the stored info changed although the record was rejected".into());
                return false;
            }
        }
        (Expect::Accept { .. }, Err(e)) => {
            bad("C27:authentic-record-rejected".into(), format!("an authentic record was rejected: {e}"));
            return false;
        }
        (Expect::Accept { is_newer }, Ok(got)) => {
            let want = model.cur.map(|c| set.recs[c].info.clone());
            if *after != want {
                let equal_ts = matches!((after, &want), (Some(a), Some(b)) if a.timestamp() == b.timestamp());
                let sig = if equal_ts { "C27:equal-timestamp-record-replaced-stored" } else { "C27:stored-not-newest-authentic" };
                bad(sig.into(), format!("stored {:?}, expected {:?}", after.as_ref().map(|t| t.timestamp().to_string()), want.as_ref().map(|t| t.timestamp().to_string())));
                return false;
            }
            if after.as_ref().map(|t| t.timestamp()) != model.max_ts {
                bad("C27:stored-not-newest-authentic".into(), "stored timestamp is not the maximum authentic timestamp delivered".into());
                return false;
            }
            if got != is_newer {
                bad("C27:is_newer-mismatch".into(), format!("returned is_newer={got}, expected {is_newer}"));
                return false;
            }
        }
    }
    true
}

fn nontrivial(set: &Set, order: &[usize]) -> bool {
    let auth: Vec<HybridTimestamp> = order.iter().filter(|&&i| set.recs[i].authentic).map(|&i| set.recs[i].ts).collect();
    let unsorted = auth.windows(2).any(|w| w[1] < w[0]);
    let forged = order.iter().any(|&i| !set.recs[i].authentic);
    auth.len() >= 3 && unsorted && forged
}

pub fn run(args: &Args) {
    let mut rep = Report::new(
        args,
        "set = one node key, 3..7 authentic records (signed, 25% trusted) with distinct hybrid \
         timestamps sharing wall parts, optionally one authentic record re-using a timestamp with \
         other content, 1..3 non-authentic records (signed by another key naming the victim, a valid \
         record of another node, tampered timestamp, tampered addresses, trusted naming another \
         node — mostly newer than everything authentic; or an authentic signed record relayed with \
         its signature and timestamp but an altered address list: address prepended / appended / \
         inserted / duplicated / original kept next to a replacement). Orders: all permutations when <= 6 records, \
         else ascending, descending and random ones. Pure path NodeInfo::update_transports and actor \
         path AddressBook::insert_transport_info (a sample of the orders). Non-trivial = >= 3 \
         authentic records not in ascending order with a non-authentic one interleaved; distinct by \
         (set, order, path).",
        200,
    );
    let rt = tokio::runtime::Builder::new_current_thread().enable_all().build().unwrap();
    let book = rt.block_on(AddressBook::builder().spawn()).expect("address book spawns offline");
    let sets = args.n(250, 5_000);
    let actor_every = 1u64; // every set also goes through the actor, with fewer orders
    let mut exhaustive_sets = 0u64;
    for s in 0..sets {
        let mut rng = Rng::fork(args.seed, s);
        let small = rng.chance(0.45);
        let set = gen_set(&mut rng, small);
        let id = set.key.verifying_key();
        let n = set.recs.len();
        let quick = args.tier == vh_common::Tier::Quick;
        let (ords, complete) = orders(&mut rng, n, if n <= 6 { if quick { 150 } else { 720 } } else { 60 });
        if complete {
            exhaustive_sets += 1;
        }
        let witness = json!({"seed": args.seed, "set": s, "records": set.recs.iter().map(|r| json!({"kind": r.kind, "ts": r.ts.to_string(), "authentic": r.authentic})).collect::<Vec<_>>()});

        // Pure path.
        'orders: for order in &ords {
            let mut node = NodeInfo::new(id);
            let mut model = Model::default();
            rep.case(if nontrivial(&set, order) { Some((s, order.clone(), "pure")) } else { None });
            for step in 0..order.len() {
                let before = node.transports.clone();
                let whole_before = node.clone();
                let result = node.update_transports(set.recs[order[step]].info.clone()).map_err(|e| e.to_string());
                let expect = model.deliver(&set.recs, order[step]);
                rep.bump("pure_updates", 1);
                if result.is_err() && whole_before != node {
                    rep.violation("C27:state-changed-on-rejected-record", "NodeInfo changed on Err", witness.clone());
                    break 'orders;
                }
                let after = node.transports.clone();
                if !judge(&mut rep, "pure", &set, order, step, &model, &expect, &result, &before, &after, &witness) {
                    break 'orders;
                }
            }
        }

        // Actor + SQLite path.
        if s % actor_every == 0 {
            let mut sample: Vec<&Vec<usize>> = ords.iter().collect();
            rng.shuffle(&mut sample);
            sample.truncate(if args.tier == vh_common::Tier::Quick { 6 } else { 4 });
            'aorders: for (k, order) in sample.into_iter().enumerate() {
                let ok = rt.block_on(async {
                    if k > 0 {
                        // Documented local overwrite: resets the entry for the next order.
                        book.insert_node_info(NodeInfo::new(id)).await.expect("reset entry");
                    }
                    let mut model = Model::default();
                    for step in 0..order.len() {
                        let before = book.node_info(id).await.expect("node_info").and_then(|n| n.transports);
                        let result = book
                            .insert_transport_info(id, set.recs[order[step]].info.clone())
                            .await
                            .map_err(|e| e.to_string());
                        let after = book.node_info(id).await.expect("node_info").and_then(|n| n.transports);
                        let expect = model.deliver(&set.recs, order[step]);
                        rep.bump("actor_inserts", 1);
                        if !judge(&mut rep, "actor", &set, order, step, &model, &expect, &result, &before, &after, &witness) {
                            return false;
                        }
                    }
                    // insert_node_info: documented local overwrite, only required to reject forged.
                    let stored = book.node_info(id).await.expect("node_info");
                    for r in set.recs.iter().filter(|r| !r.authentic) {
                        let mut forged = NodeInfo::new(id);
                        forged.transports = Some(r.info.clone());
                        let res = book.insert_node_info(forged).await;
                        rep.bump("actor_forged_node_infos", 1);
                        let now = book.node_info(id).await.expect("node_info");
                        if res.is_ok() || now != stored {
                            rep.violation(
                                &format!("C27:forged-node-info-accepted:{}", r.kind),
                                format!("insert_node_info accepted or applied a NodeInfo carrying a {} record", r.kind),
                                witness.clone(),
                            );
                            return false;
                        }
                    }
                    true
                });
                rep.case(if nontrivial(&set, order) { Some((s, order.clone(), "actor")) } else { None });
                if !ok {
                    break 'aorders;
                }
            }
        }
        if s < 2 {
            rep.sample(json!({"set": s, "records": witness["records"], "orders": ords.len(), "all_permutations": complete}));
        }
    }
    rep.extra("sets", json!(sets));
    rep.extra("sets_with_all_permutations", json!(exhaustive_sets));
    rep.finish(args);
}
