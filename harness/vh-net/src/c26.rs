//! C26 — wire framing: for any message sequence and any chunking of the byte stream the
//! length-prefixed codec decodes exactly the encoded messages in order; frames larger than the
//! configured maximum are rejected on encode and decode and no smaller frame is; garbage never
//! panics.
//!
//! Oracle (from the statement + the documented wire format in the module docs of `codec.rs`):
//! * `decode(any chunking of encode(msgs)) == msgs` (content equality, in order, nothing extra),
//! * encoder output == concat(be32(len(postcard(m))) ++ postcard(m)) (independent `postcard` call),
//! * frame of `max-1` and `max` bytes accepted, `max+1` rejected, on both sides,
//! * no panic for arbitrary bytes / length prefixes (decode errors are fine).

use std::collections::{BTreeMap, HashSet};
use std::net::SocketAddr;
use std::panic::AssertUnwindSafe;

use futures_util::{FutureExt, SinkExt, StreamExt};
use p2panda_core::{Body, Hash, Header, SigningKey, Topic, VerifyingKey};
use p2panda_discovery::psi_hash::PsiHashMessage;
use p2panda_net::addrs::{NodeInfo, TransportAddress, UnsignedTransportInfo};
use p2panda_net::codec::{Codec, into_codec_sink, into_codec_stream};
use p2panda_sync::protocols::{LogSyncMessage, TopicLogSyncMessage};
use serde::Serialize;
use serde::de::DeserializeOwned;
use tokio::io::AsyncWriteExt;
use tokio_util::bytes::BytesMut;
use tokio_util::codec::{Encoder, FramedRead};
use vh_common::{Args, Report, Rng, catch, hash_of, hex, json};

type Ls = LogSyncMessage<usize>;
type Tls = TopicLogSyncMessage<usize, usize>;
type Psi = PsiHashMessage<VerifyingKey, NodeInfo>;
type Padded = (Vec<u8>, Option<u8>);

trait Msg: Serialize + DeserializeOwned + Send + 'static {
    const TAG: &'static str;
    fn generate(rng: &mut Rng) -> Self;
    fn same(&self, other: &Self) -> bool;
}

fn key(rng: &mut Rng) -> SigningKey {
    SigningKey::from_bytes(&rng.array32())
}

fn payload(rng: &mut Rng) -> Vec<u8> {
    let n = match rng.below(10) {
        0 => 0,
        1..=6 => rng.usize_below(40),
        7 | 8 => rng.usize_below(600),
        _ => rng.usize_below(20_000),
    };
    rng.bytes(n)
}

/// A well-formed, signed header (payload hash present iff the body is non-empty, backlink present
/// iff seq_num > 0 — the header encoding is positional on exactly these two conditions).
fn header(rng: &mut Rng, body: &Body, seq_num: u32) -> Header<usize> {
    let k = key(rng);
    let mut header = Header::<usize> {
        version: 1,
        verifying_key: k.verifying_key(),
        signature: None,
        payload_size: body.size(),
        payload_hash: if body.size() > 0 { Some(body.hash()) } else { None },
        seq_num,
        backlink: if seq_num > 0 { Some(Hash::digest(rng.array32())) } else { None },
        extensions: rng.usize_below(9),
    };
    header.sign(&k);
    header
}

impl Msg for Vec<u8> {
    const TAG: &'static str = "raw";
    fn generate(rng: &mut Rng) -> Self {
        payload(rng)
    }
    fn same(&self, other: &Self) -> bool {
        self == other
    }
}

fn gen_ls(rng: &mut Rng) -> Ls {
    match rng.below(4) {
        0 => {
            let mut m = BTreeMap::new();
            for _ in 0..rng.below(4) {
                let mut inner = BTreeMap::new();
                for _ in 0..rng.below(4) {
                    inner.insert(rng.mag(40) as usize, rng.next_u32() >> rng.below(32));
                }
                m.insert(key(rng).verifying_key(), inner);
            }
            LogSyncMessage::Have(m)
        }
        1 => LogSyncMessage::PreSync {
            total_operations: rng.next_u32() >> rng.below(32),
            total_bytes: rng.next_u32() >> rng.below(32),
        },
        2 => {
            let body = payload(rng);
            let seq = rng.below(5) as u32;
            let header_bytes = header(rng, &Body::new(&body), seq).to_bytes();
            LogSyncMessage::Operation(header_bytes, if rng.chance(0.8) { Some(body) } else { None })
        }
        _ => LogSyncMessage::Done,
    }
}

impl Msg for Ls {
    const TAG: &'static str = "log_sync";
    fn generate(rng: &mut Rng) -> Self {
        gen_ls(rng)
    }
    fn same(&self, other: &Self) -> bool {
        self == other
    }
}

impl Msg for Tls {
    const TAG: &'static str = "topic_log_sync";
    fn generate(rng: &mut Rng) -> Self {
        match rng.below(5) {
            0 | 1 => TopicLogSyncMessage::Sync(gen_ls(rng)),
            2 | 3 => {
                let body = Body::new(&payload(rng));
                let seq = rng.below(1000) as u32;
                let header = header(rng, &body, seq);
                TopicLogSyncMessage::Live(header, if rng.chance(0.8) { Some(body) } else { None })
            }
            _ => TopicLogSyncMessage::Close,
        }
    }
    fn same(&self, other: &Self) -> bool {
        self == other
    }
}

fn topics(rng: &mut Rng) -> HashSet<Topic> {
    (0..rng.below(6)).map(|_| Topic::from(rng.array32())).collect()
}

impl Msg for Psi {
    const TAG: &'static str = "psi_hash";
    fn generate(rng: &mut Rng) -> Self {
        match rng.below(4) {
            0 => PsiHashMessage::AliceSaltHalf { alice_salt_half: rng.array32() },
            1 => PsiHashMessage::BobSaltHalfAndHashedData {
                bob_salt_half: rng.array32(),
                topics_for_alice: topics(rng),
            },
            2 => PsiHashMessage::AliceHashedData { topics_for_bob: topics(rng) },
            _ => {
                let mut transport_infos = BTreeMap::new();
                for _ in 0..rng.below(4) {
                    let k = key(rng);
                    let id = k.verifying_key();
                    let addrs: Vec<SocketAddr> = (0..rng.below(3))
                        .map(|_| {
                            SocketAddr::from((
                                [rng.below(256) as u8, rng.below(256) as u8, 0, 1],
                                rng.below(65536) as u16,
                            ))
                        })
                        .collect();
                    let relay = if rng.bool() {
                        Some("https://my.relay.net".parse().unwrap())
                    } else {
                        None
                    };
                    let mut info = UnsignedTransportInfo::from_addrs([TransportAddress::from_iroh(
                        id, relay, addrs,
                    )]);
                    info.timestamp = rng.mag(50).into();
                    transport_infos.insert(id, info.sign(&k).expect("sign"));
                }
                PsiHashMessage::Nodes { transport_infos }
            }
        }
    }
    fn same(&self, other: &Self) -> bool {
        use PsiHashMessage::*;
        match (self, other) {
            (AliceSaltHalf { alice_salt_half: a }, AliceSaltHalf { alice_salt_half: b }) => a == b,
            (
                BobSaltHalfAndHashedData { bob_salt_half: a, topics_for_alice: ta },
                BobSaltHalfAndHashedData { bob_salt_half: b, topics_for_alice: tb },
            ) => a == b && ta == tb,
            (AliceHashedData { topics_for_bob: a }, AliceHashedData { topics_for_bob: b }) => a == b,
            (Nodes { transport_infos: a }, Nodes { transport_infos: b }) => a == b,
            _ => false,
        }
    }
}

impl Msg for Padded {
    const TAG: &'static str = "padded";
    fn generate(rng: &mut Rng) -> Self {
        (payload(rng), if rng.bool() { Some(rng.below(256) as u8) } else { None })
    }
    fn same(&self, other: &Self) -> bool {
        self == other
    }
}

/// Independent statement of the documented wire format.
fn reference_bytes<M: Serialize>(msgs: &[M]) -> Vec<u8> {
    let mut out = Vec::new();
    for m in msgs {
        let body = postcard::to_allocvec(m).expect("postcard");
        out.extend_from_slice(&(body.len() as u32).to_be_bytes());
        out.extend_from_slice(&body);
    }
    out
}

/// Real encoder, all messages into one buffer.
fn encode_all<M: Msg>(msgs: &[M], max: Option<usize>) -> Result<Vec<u8>, String> {
    let mut codec = Codec::<&M>::new();
    if let Some(max) = max {
        codec = codec.max_frame_len(max);
    }
    let mut buf = BytesMut::new();
    for m in msgs {
        codec.encode(m, &mut buf).map_err(|e| e.to_string())?;
    }
    Ok(buf.to_vec())
}

/// Feed `bytes` cut at `cuts` (ascending offsets) through a real `FramedRead` over a duplex pipe.
async fn decode_chunked<M: Msg>(
    bytes: &[u8],
    cuts: &[usize],
    max: Option<usize>,
) -> (Vec<M>, Option<String>) {
    let (mut tx, rx) = tokio::io::duplex(bytes.len().max(16));
    let mut codec = Codec::<M>::new();
    if let Some(max) = max {
        codec = codec.max_frame_len(max);
    }
    let mut stream = FramedRead::new(rx, codec);
    let mut out = Vec::new();
    let mut prev = 0;
    for &c in cuts.iter().chain(std::iter::once(&bytes.len())) {
        tx.write_all(&bytes[prev..c]).await.expect("duplex write");
        prev = c;
        loop {
            match stream.next().now_or_never() {
                Some(Some(Ok(m))) => out.push(m),
                Some(Some(Err(e))) => return (out, Some(e.to_string())),
                Some(None) => return (out, Some("stream ended early".into())),
                None => break,
            }
        }
    }
    drop(tx);
    loop {
        match stream.next().await {
            Some(Ok(m)) => out.push(m),
            Some(Err(e)) => return (out, Some(e.to_string())),
            None => break,
        }
    }
    (out, None)
}

/// Sink/stream helpers of the crate over a pipe of `cap` bytes (natural chunking by the pipe).
async fn pipe_roundtrip<M: Msg>(msgs: Vec<M>, cap: usize) -> (Vec<M>, Option<String>) {
    let (a, b) = tokio::io::duplex(cap);
    let n = msgs.len();
    let send = async move {
        let mut sink = Box::pin(into_codec_sink::<M, _>(a));
        for m in msgs {
            if let Err(e) = sink.send(m).await {
                return Some(format!("send: {e}"));
            }
        }
        let _ = sink.close().await;
        None
    };
    let recv = async move {
        let mut stream = into_codec_stream::<M, _>(b);
        let mut out = Vec::new();
        let mut err = None;
        while let Some(item) = stream.next().await {
            match item {
                Ok(m) => out.push(m),
                Err(e) => {
                    err = Some(format!("recv: {e}"));
                    break;
                }
            }
            if out.len() > n {
                break;
            }
        }
        (out, err)
    };
    let (se, (out, re)) = tokio::join!(send, recv);
    (out, se.or(re))
}

fn compare<M: Msg>(sent: &[M], got: &[M]) -> Option<String> {
    if got.len() != sent.len() {
        return Some(format!("decoded {} messages, encoded {}", got.len(), sent.len()));
    }
    for (i, (a, b)) in sent.iter().zip(got).enumerate() {
        if !a.same(b) {
            return Some(format!("message {i} differs after the round trip"));
        }
    }
    None
}

struct Ctx<'a> {
    rt: &'a tokio::runtime::Runtime,
    rep: &'a mut Report,
    seed: u64,
}

fn stream_case<M: Msg>(cx: &mut Ctx, case: u64, rng: &mut Rng) {
    let small = rng.chance(0.35);
    let n = 1 + rng.usize_below(if small { 3 } else { 10 });
    let mut msgs: Vec<M> = (0..n).map(|_| M::generate(rng)).collect();
    if small {
        // Keep the whole stream within 64 bytes so that every split point is enumerated.
        while msgs.len() > 1 && reference_bytes(&msgs).len() > 64 {
            msgs.pop();
        }
    }
    let reference = reference_bytes(&msgs);
    let bytes = match encode_all(&msgs, None) {
        Ok(b) => b,
        Err(e) => {
            cx.rep.violation(
                "C26:encode-failed",
                format!("encoding a {} message below the default maximum failed: {e}", M::TAG),
                json!({"seed": cx.seed, "case": case, "type": M::TAG}),
            );
            return;
        }
    };
    if bytes != reference {
        cx.rep.violation(
            "C26:encoded-bytes-differ-from-documented-format",
            format!("{}: encoder output is not be32(len) ++ postcard(message) per message", M::TAG),
            json!({"seed": cx.seed, "case": case, "type": M::TAG, "encoded": hex(&bytes[..bytes.len().min(200)]),
                   "reference": hex(&reference[..reference.len().min(200)])}),
        );
        return;
    }
    // Frame boundaries (for the non-triviality rule).
    let mut frame_ends = HashSet::new();
    {
        let mut off = 0;
        for m in &msgs {
            off += 4 + postcard::to_allocvec(m).unwrap().len();
            frame_ends.insert(off);
        }
    }

    let mut chunkings: Vec<Vec<usize>> = Vec::new();
    if bytes.len() <= 64 {
        for k in 1..bytes.len() {
            chunkings.push(vec![k]);
        }
        chunkings.push((1..bytes.len()).collect()); // one byte at a time
        cx.rep.bump("streams_with_every_split_point", 1);
    } else {
        for _ in 0..3 {
            let cuts_n = 1 + rng.usize_below(12);
            let mut cuts: Vec<usize> = (0..cuts_n).map(|_| 1 + rng.usize_below(bytes.len() - 1)).collect();
            cuts.sort();
            cuts.dedup();
            chunkings.push(cuts);
        }
        if bytes.len() <= 3000 {
            chunkings.push((1..bytes.len()).collect());
        } else {
            // one-byte feeds over a random window of 200 bytes
            let s = 1 + rng.usize_below(bytes.len() - 201);
            chunkings.push((s..s + 200).collect());
        }
    }
    let bytes_hash = hash_of(&bytes);
    for cuts in &chunkings {
        let res = catch(AssertUnwindSafe(|| cx.rt.block_on(decode_chunked::<M>(&bytes, cuts, None))));
        let inside_frame = cuts.iter().any(|c| !frame_ends.contains(c));
        let nontrivial = msgs.len() >= 2 && inside_frame;
        cx.rep.case(if nontrivial { Some((M::TAG, bytes_hash, hash_of(cuts))) } else { None });
        cx.rep.bump("chunked_decodes", 1);
        cx.rep.bump("chunks_fed", cuts.len() as u64 + 1);
        let problem = match res {
            Err(p) => Some(("C26:panic-on-valid-stream", format!("panic: {p}"))),
            Ok((_, Some(e))) => Some(("C26:valid-stream-rejected", format!("decoder error: {e}"))),
            Ok((got, None)) => compare(&msgs, &got).map(|w| ("C26:roundtrip-mismatch", w)),
        };
        if let Some((sig, what)) = problem {
            cx.rep.violation(
                sig,
                format!("{} stream of {} messages, {} bytes, {} cuts: {what}", M::TAG, msgs.len(), bytes.len(), cuts.len()),
                json!({"seed": cx.seed, "case": case, "type": M::TAG, "messages": msgs.len(),
                       "bytes": hex(&bytes[..bytes.len().min(400)]), "bytes_len": bytes.len(),
                       "cuts": cuts.iter().take(64).collect::<Vec<_>>()}),
            );
            break;
        }
    }
    if cx.rep.want_sample() && case % 7 == 0 {
        cx.rep.sample(json!({"type": M::TAG, "messages": msgs.len(), "bytes": bytes.len(),
            "chunkings": chunkings.len(), "first_cuts": chunkings[0].iter().take(8).collect::<Vec<_>>()}));
    }

    // The crate's own sink/stream helpers over a small pipe (chunking by pipe capacity).
    if case % 4 == 0 {
        let cap = *rng.pick(&[1usize, 2, 3, 5, 7, 16, 64, 1024]);
        let n_msgs = msgs.len();
        let expect_bytes = bytes.len();
        let res = catch(AssertUnwindSafe(|| cx.rt.block_on(pipe_roundtrip::<M>(msgs_take(&mut msgs), cap))));
        cx.rep.case(if n_msgs >= 2 && cap < expect_bytes { Some((M::TAG, "pipe", bytes_hash, cap)) } else { None });
        cx.rep.bump("pipe_roundtrips", 1);
        // `msgs` was moved into the sender; compare against a fresh decode of the reference bytes.
        let (reference_msgs, _) = cx.rt.block_on(decode_chunked::<M>(&bytes, &[], None));
        let problem = match res {
            Err(p) => Some(("C26:panic-on-valid-stream", format!("panic: {p}"))),
            Ok((_, Some(e))) => Some(("C26:valid-stream-rejected", e)),
            Ok((got, None)) => compare(&reference_msgs, &got).map(|w| ("C26:roundtrip-mismatch", w)),
        };
        if let Some((sig, what)) = problem {
            cx.rep.violation(
                sig,
                format!("{} via into_codec_sink/stream over duplex({cap}): {what}", M::TAG),
                json!({"seed": cx.seed, "case": case, "type": M::TAG, "pipe_capacity": cap, "messages": n_msgs}),
            );
        }
    }
}

fn msgs_take<M>(v: &mut Vec<M>) -> Vec<M> {
    std::mem::take(v)
}

/// A `Padded` message whose postcard size is exactly `frame` bytes (frame >= 2).
fn padded_of_size(frame: usize, rng: &mut Rng) -> Padded {
    // size = varint(len) + len + (1 | 2)
    for pad in [1usize, 2] {
        for len in frame.saturating_sub(pad + 5)..=frame {
            let varint = match len {
                0..=127 => 1,
                128..=16383 => 2,
                16384..=2097151 => 3,
                _ => 4,
            };
            if varint + len + pad == frame {
                let m = (rng.bytes(len), if pad == 2 { Some(7u8) } else { None });
                assert_eq!(postcard::to_allocvec(&m).unwrap().len(), frame);
                return m;
            }
        }
    }
    unreachable!("no padded message of size {frame}")
}

fn boundary_case(cx: &mut Ctx, case: u64, rng: &mut Rng) {
    let max = match rng.below(4) {
        0 => 3 + rng.usize_below(200),
        1 => *rng.pick(&[127usize, 128, 129, 130, 131, 255, 256, 257, 16384, 16385, 16386, 16387, 16388]),
        2 => 3 + rng.usize_below(5000),
        _ => 3 + rng.usize_below(100_000),
    };
    for (delta, must_accept) in [(-1i64, true), (0, true), (1, false)] {
        let frame = (max as i64 + delta) as usize;
        let m = padded_of_size(frame, rng);
        let rel = match delta {
            -1 => "max-1",
            0 => "max",
            _ => "max+1",
        };
        // Encode side.
        let enc = catch(AssertUnwindSafe(|| encode_all(std::slice::from_ref(&m), Some(max))));
        cx.rep.case(Some(("boundary-enc", max, delta)));
        match enc {
            Err(p) => cx.rep.violation("C26:panic-at-size-boundary", p, json!({"seed": cx.seed, "case": case, "max": max, "frame": frame})),
            Ok(Ok(_)) if !must_accept => cx.rep.violation(
                "C26:oversize-frame-accepted:encode",
                format!("encoder with max_frame_len {max} accepted a frame of {frame} bytes"),
                json!({"seed": cx.seed, "case": case, "max": max, "frame": frame}),
            ),
            Ok(Err(e)) if must_accept => cx.rep.violation(
                &format!("C26:frame-{rel}-rejected:encode"),
                format!("encoder with max_frame_len {max} rejected a frame of {frame} bytes: {e}"),
                json!({"seed": cx.seed, "case": case, "max": max, "frame": frame}),
            ),
            _ => {}
        }
        // Decode side: bytes from an unrestricted encoder, fed in two random chunks.
        let bytes = encode_all(std::slice::from_ref(&m), None).expect("unrestricted encode");
        let cut = 1 + rng.usize_below(bytes.len() - 1);
        let dec = catch(AssertUnwindSafe(|| cx.rt.block_on(decode_chunked::<Padded>(&bytes, &[cut], Some(max)))));
        cx.rep.case(Some(("boundary-dec", max, delta)));
        match dec {
            Err(p) => cx.rep.violation("C26:panic-at-size-boundary", p, json!({"seed": cx.seed, "case": case, "max": max, "frame": frame})),
            Ok((got, None)) if !must_accept && !got.is_empty() => cx.rep.violation(
                "C26:oversize-frame-accepted:decode",
                format!("decoder with max_frame_len {max} yielded a frame of {frame} bytes"),
                json!({"seed": cx.seed, "case": case, "max": max, "frame": frame}),
            ),
            Ok((got, err)) if must_accept && (err.is_some() || got.len() != 1 || got[0] != m) => cx.rep.violation(
                &format!("C26:frame-{rel}-rejected:decode"),
                format!("decoder with max_frame_len {max} did not yield a frame of {frame} bytes: {err:?}"),
                json!({"seed": cx.seed, "case": case, "max": max, "frame": frame}),
            ),
            Ok((_, None)) if !must_accept => cx.rep.violation(
                "C26:oversize-frame-not-rejected:decode",
                format!("decoder with max_frame_len {max} ended without an error on a frame of {frame} bytes"),
                json!({"seed": cx.seed, "case": case, "max": max, "frame": frame}),
            ),
            _ => {}
        }
    }
    cx.rep.bump("boundary_triples", 1);
}

fn garbage_case<M: Msg>(cx: &mut Ctx, case: u64, rng: &mut Rng) {
    let mut bytes = match rng.below(5) {
        0 => { let n = rng.usize_below(64); rng.bytes(n) }
        1 => {
            // huge / odd length prefixes
            let mut b = rng.pick(&[[0xffu8; 4], [0x08, 0, 0, 1], [0x08, 0, 0, 0], [0x7f, 0xff, 0xff, 0xff], [0, 0, 0, 0]]).to_vec();
            let n = rng.usize_below(40);
            b.extend(rng.bytes(n));
            b
        }
        2 => {
            // well-formed prefix, random body
            let n = rng.usize_below(80);
            let mut b = (n as u32).to_be_bytes().to_vec();
            b.extend(rng.bytes(n));
            b
        }
        3 => {
            // a valid stream with a few corrupted bytes
            let msgs: Vec<M> = (0..1 + rng.usize_below(3)).map(|_| M::generate(rng)).collect();
            let mut b = reference_bytes(&msgs);
            for _ in 0..1 + rng.below(4) {
                let i = rng.usize_below(b.len());
                b[i] ^= 1 << rng.below(8);
            }
            b
        }
        _ => {
            // truncated valid stream
            let msgs: Vec<M> = (0..1 + rng.usize_below(3)).map(|_| M::generate(rng)).collect();
            let mut b = reference_bytes(&msgs);
            b.truncate(rng.usize_below(b.len()));
            b
        }
    };
    if bytes.is_empty() {
        bytes.push(0);
    }
    let cuts: Vec<usize> = if bytes.len() > 2 && rng.bool() { vec![1 + rng.usize_below(bytes.len() - 1)] } else { vec![] };
    let res = catch(AssertUnwindSafe(|| cx.rt.block_on(decode_chunked::<M>(&bytes, &cuts, None))));
    cx.rep.case(Some(("garbage", M::TAG, hash_of(&bytes))));
    match res {
        Err(p) => cx.rep.violation(
            "C26:panic-on-garbage",
            format!("{} decoder panicked on arbitrary input: {p}", M::TAG),
            json!({"seed": cx.seed, "case": case, "type": M::TAG, "bytes": hex(&bytes[..bytes.len().min(400)]), "cuts": cuts}),
        ),
        Ok((_, Some(_))) => cx.rep.bump("garbage_rejected", 1),
        Ok((_, None)) => cx.rep.bump("garbage_decoded_as_something", 1),
    }
}

pub fn run(args: &Args) {
    vh_common::quiet_panics();
    let mut rep = Report::new(
        args,
        "stream = 1..10 generated messages of one type (raw Vec<u8>, LogSyncMessage, \
         TopicLogSyncMessage, PsiHashMessage<NodeId, NodeInfo>, (Vec<u8>, Option<u8>)) encoded by the real \
         encoder, fed to a real FramedRead over tokio duplex in chunks: every split point + one-byte \
         feeds for streams <= 64 B, random cuts and one-byte feeds for longer ones; every 4th stream \
         also through into_codec_sink/into_codec_stream over duplex(1..1024). Boundary: frames of \
         max-1 / max / max+1 bytes against max_frame_len on both sides. Garbage: random bytes, odd \
         prefixes, corrupted and truncated streams under catch_unwind. Non-trivial = >= 2 messages \
         and a cut inside a frame (or a boundary / garbage probe); distinct by (type, bytes, cuts).",
        300,
    );
    let rt = tokio::runtime::Builder::new_current_thread().enable_all().build().unwrap();
    let streams = args.n(3_000, 600_000);
    let mut cx = Ctx { rt: &rt, rep: &mut rep, seed: args.seed };
    for i in 0..streams {
        let mut rng = Rng::fork(args.seed, i);
        match i % 5 {
            0 => stream_case::<Vec<u8>>(&mut cx, i, &mut rng),
            1 => stream_case::<Ls>(&mut cx, i, &mut rng),
            2 => stream_case::<Tls>(&mut cx, i, &mut rng),
            3 => stream_case::<Psi>(&mut cx, i, &mut rng),
            _ => stream_case::<Padded>(&mut cx, i, &mut rng),
        }
    }
    let boundaries = args.n(300, 20_000);
    for i in 0..boundaries {
        let mut rng = Rng::fork(args.seed ^ 0x26b0, i);
        boundary_case(&mut cx, i, &mut rng);
    }
    let garbage = args.n(3_000, 300_000);
    for i in 0..garbage {
        let mut rng = Rng::fork(args.seed ^ 0x26c0, i);
        match i % 4 {
            0 => garbage_case::<Vec<u8>>(&mut cx, i, &mut rng),
            1 => garbage_case::<Ls>(&mut cx, i, &mut rng),
            2 => garbage_case::<Tls>(&mut cx, i, &mut rng),
            _ => garbage_case::<Psi>(&mut cx, i, &mut rng),
        }
    }
    rep.extra("streams", json!(streams));
    rep.finish(args);
}
