//! C21 (codec variant) — two real `LogSync` peers over `tokio::io::duplex(n)` with the real
//! `p2panda_net::codec` framing (`FramedWrite` / `FramedRead` over `Codec<LogSyncMessage>`).
//!
//! Deadlock is decided on state, never on time: the byte pipes are wrapped so that every
//! `poll_write` / `poll_read` publishes the side's state (blocked in send / blocked in recv /
//! running) and byte counters. Verdict "both-blocked-in-send" ⇔ both sessions' last I/O poll was a
//! pending write, both pipes are full (written − read == capacity in both directions), neither
//! session has finished, and the identical snapshot is observed again >= 100 ms later. A watchdog
//! that fires without such a state is `inconclusive`.

use std::collections::BTreeMap;
use std::pin::Pin;
use std::sync::Arc;
use std::sync::atomic::{AtomicBool, AtomicU8, AtomicU64, Ordering};
use std::task::{Context, Poll};
use std::time::{Duration, Instant};

use p2panda_core::Body;
use p2panda_net::codec::Codec;
use p2panda_sync::protocols::Logs;
use p2panda_sync::test_utils::{Peer, TestLogSyncMessage};
use p2panda_sync::traits::Protocol;
use tokio::io::{AsyncRead, AsyncWrite, ReadBuf};
use tokio_util::codec::{FramedRead, FramedWrite};
use vh_common::{Args, Report, Rng, json};

const RUNNING: u8 = 0;
const BLOCKED_SEND: u8 = 1;
const BLOCKED_RECV: u8 = 2;

#[derive(Default)]
struct SideState {
    state: AtomicU8,
    written: AtomicU64,
    read: AtomicU64,
    write_polls_pending: AtomicU64,
    finished: AtomicBool,
}

struct W<T> {
    inner: T,
    st: Arc<SideState>,
}

impl<T: AsyncWrite + Unpin> AsyncWrite for W<T> {
    fn poll_write(mut self: Pin<&mut Self>, cx: &mut Context<'_>, buf: &[u8]) -> Poll<std::io::Result<usize>> {
        match Pin::new(&mut self.inner).poll_write(cx, buf) {
            Poll::Pending => {
                self.st.state.store(BLOCKED_SEND, Ordering::SeqCst);
                self.st.write_polls_pending.fetch_add(1, Ordering::Relaxed);
                Poll::Pending
            }
            Poll::Ready(r) => {
                if let Ok(n) = &r {
                    self.st.written.fetch_add(*n as u64, Ordering::SeqCst);
                }
                self.st.state.store(RUNNING, Ordering::SeqCst);
                Poll::Ready(r)
            }
        }
    }
    fn poll_flush(mut self: Pin<&mut Self>, cx: &mut Context<'_>) -> Poll<std::io::Result<()>> {
        match Pin::new(&mut self.inner).poll_flush(cx) {
            Poll::Pending => {
                self.st.state.store(BLOCKED_SEND, Ordering::SeqCst);
                Poll::Pending
            }
            r => r,
        }
    }
    fn poll_shutdown(mut self: Pin<&mut Self>, cx: &mut Context<'_>) -> Poll<std::io::Result<()>> {
        Pin::new(&mut self.inner).poll_shutdown(cx)
    }
}

struct R<T> {
    inner: T,
    st: Arc<SideState>,
}

impl<T: AsyncRead + Unpin> AsyncRead for R<T> {
    fn poll_read(mut self: Pin<&mut Self>, cx: &mut Context<'_>, buf: &mut ReadBuf<'_>) -> Poll<std::io::Result<()>> {
        let before = buf.filled().len();
        match Pin::new(&mut self.inner).poll_read(cx, buf) {
            Poll::Pending => {
                self.st.state.store(BLOCKED_RECV, Ordering::SeqCst);
                Poll::Pending
            }
            Poll::Ready(r) => {
                self.st.read.fetch_add((buf.filled().len() - before) as u64, Ordering::SeqCst);
                self.st.state.store(RUNNING, Ordering::SeqCst);
                Poll::Ready(r)
            }
        }
    }
}

#[derive(Clone, Copy, PartialEq, Debug)]
struct Snap {
    sa: u8,
    sb: u8,
    wa: u64,
    ra: u64,
    wb: u64,
    rb: u64,
    fa: bool,
    fb: bool,
}

fn snap(a: &SideState, b: &SideState) -> Snap {
    Snap {
        sa: a.state.load(Ordering::SeqCst),
        sb: b.state.load(Ordering::SeqCst),
        wa: a.written.load(Ordering::SeqCst),
        ra: a.read.load(Ordering::SeqCst),
        wb: b.written.load(Ordering::SeqCst),
        rb: b.read.load(Ordering::SeqCst),
        fa: a.finished.load(Ordering::SeqCst),
        fb: b.finished.load(Ordering::SeqCst),
    }
}

enum Outcome {
    Completed { err_a: Option<String>, err_b: Option<String> },
    Deadlock { shape: &'static str, snap: Snap },
    Watchdog { snap: Snap },
}

struct Config {
    cap: usize,
    ops_a: usize,
    ops_b: usize,
    body: usize,
}

async fn one(cfg: &Config, case: u64, watchdog: Duration) -> (Outcome, u64, u64) {
    let mut peer_a = Peer::new(case * 2 + 1).await;
    let mut peer_b = Peer::new(case * 2 + 2).await;
    let body = Body::new(&vec![0xabu8; cfg.body]);
    let (mut bytes_a, mut bytes_b) = (0u64, 0u64);
    for _ in 0..cfg.ops_a {
        let (h, hb) = peer_a.create_operation(&body, 0).await;
        bytes_a += hb.len() as u64 + h.payload_size as u64;
    }
    for _ in 0..cfg.ops_b {
        let (h, hb) = peer_b.create_operation(&body, 0).await;
        bytes_b += hb.len() as u64 + h.payload_size as u64;
    }
    let mut logs = Logs::default();
    logs.insert(peer_a.id(), vec![0usize]);
    logs.insert(peer_b.id(), vec![0usize]);
    let (session_a, _events_a) = peer_a.log_sync_protocol(&logs);
    let (session_b, _events_b) = peer_b.log_sync_protocol(&logs);

    let (pipe_a, pipe_b) = tokio::io::duplex(cfg.cap);
    let (ra, wa) = tokio::io::split(pipe_a);
    let (rb, wb) = tokio::io::split(pipe_b);
    let st_a = Arc::new(SideState::default());
    let st_b = Arc::new(SideState::default());

    let run_side = |session: p2panda_sync::test_utils::TestLogSync, r, w, st: Arc<SideState>| async move {
        let mut sink = FramedWrite::new(W { inner: w, st: st.clone() }, Codec::<TestLogSyncMessage>::new());
        let mut stream = FramedRead::new(R { inner: r, st: st.clone() }, Codec::<TestLogSyncMessage>::new());
        let res = session.run(&mut sink, &mut stream).await;
        st.finished.store(true, Ordering::SeqCst);
        // A finished peer closes its end of the connection (buffered bytes stay readable).
        drop(sink);
        drop(stream);
        res.map(|_| ()).map_err(|e| e.to_string())
    };
    let fa = run_side(session_a, ra, wa, st_a.clone());
    let fb = run_side(session_b, rb, wb, st_b.clone());

    let cap = cfg.cap as u64;
    let monitor = async {
        let t0 = Instant::now();
        let mut candidate: Option<(Snap, Instant)> = None;
        loop {
            tokio::time::sleep(Duration::from_millis(25)).await;
            let s = snap(&st_a, &st_b);
            let both_send = !s.fa && !s.fb && s.sa == BLOCKED_SEND && s.sb == BLOCKED_SEND && s.wa - s.rb == cap && s.wb - s.ra == cap;
            // (A pending read is not a reliable "blocked" mark: `select!` polls the stream and then may
            // sit in a store query inside the other arm, so only the send shape is a verdict.)
            if both_send {
                match candidate {
                    Some((c, since)) if c == s => {
                        if since.elapsed() >= Duration::from_millis(100) {
                            return Outcome::Deadlock { shape: "both-blocked-in-send", snap: s };
                        }
                    }
                    _ => candidate = Some((s, Instant::now())),
                }
            } else {
                candidate = None;
            }
            if t0.elapsed() > watchdog {
                return Outcome::Watchdog { snap: s };
            }
        }
    };
    let outcome = tokio::select! {
        (ra, rb) = async { tokio::join!(fa, fb) } => Outcome::Completed { err_a: ra.err(), err_b: rb.err() },
        o = monitor => o,
    };
    (outcome, bytes_a, bytes_b)
}

pub fn run(args: &Args) {
    let mut rep = Report::new(
        args,
        "configuration = duplex capacity n in {64 B .. 1 MiB} x operations per side in {0, 1, 3, 20} x \
         body size in {100 B, 8 KiB, 64 KiB}; both peers are real LogSync sessions over SqliteStore, \
         each syncing its own log to the other through FramedWrite/FramedRead with the real Codec. \
         Non-trivial = both sides have more bytes to send than the pipe holds; distinct by \
         (capacity, ops a, ops b, body size).",
        10,
    );
    let rt = tokio::runtime::Builder::new_current_thread().enable_all().build().unwrap();
    let caps = [64usize, 256, 1024, 4096, 16 * 1024, 64 * 1024, 256 * 1024, 1024 * 1024];
    let volumes = [0usize, 1, 3, 20];
    let bodies = [100usize, 8 * 1024, 64 * 1024];
    let n = args.n(64, 800);
    let watchdog = Duration::from_secs(30);
    let mut outcomes: BTreeMap<&'static str, u64> = BTreeMap::new();
    for i in 0..n {
        let mut rng = Rng::fork(args.seed, i);
        let cfg = Config {
            cap: caps[(i as usize) % caps.len()],
            ops_a: *rng.pick(&volumes),
            ops_b: *rng.pick(&volumes),
            body: *rng.pick(&bodies),
        };
        let (outcome, bytes_a, bytes_b) = rt.block_on(one(&cfg, args.seed.wrapping_mul(1_000_003).wrapping_add(i), watchdog));
        let nontrivial = bytes_a > cfg.cap as u64 && bytes_b > cfg.cap as u64;
        rep.case(if nontrivial { Some((cfg.cap, cfg.ops_a, cfg.ops_b, cfg.body)) } else { None });
        let base = json!({"seed": args.seed, "case": i, "duplex_capacity": cfg.cap, "ops_a": cfg.ops_a, "ops_b": cfg.ops_b,
                          "body_bytes": cfg.body, "outbound_bytes_a": bytes_a, "outbound_bytes_b": bytes_b});
        let snap_json = |s: &Snap| json!({"state_a": s.sa, "state_b": s.sb, "written_a": s.wa, "read_a": s.ra, "written_b": s.wb, "read_b": s.rb,
                                           "pipe_a_to_b": s.wa - s.rb, "pipe_b_to_a": s.wb - s.ra, "finished_a": s.fa, "finished_b": s.fb,
                                           "legend": "state 0 running, 1 blocked in send, 2 blocked in recv"});
        let label = match &outcome {
            Outcome::Completed { err_a, err_b } => {
                if err_a.is_some() || err_b.is_some() {
                    let mut w = base.clone();
                    w["error_a"] = json!(err_a);
                    w["error_b"] = json!(err_b);
                    rep.violation("C21:session-failed-between-honest-peers", format!("a session returned an error: a={err_a:?} b={err_b:?}"), w);
                    "failed"
                } else {
                    "completed"
                }
            }
            Outcome::Deadlock { shape, snap } => {
                let mut w = base.clone();
                w["snapshot"] = snap_json(snap);
                rep.violation(
                    &format!("C21:{shape}"),
                    format!("duplex({}) with {} / {} operations of {} B: both sessions {shape}, pipes {} / {} bytes of {}, no progress over >= 100 ms",
                            cfg.cap, cfg.ops_a, cfg.ops_b, cfg.body, snap.wa - snap.rb, snap.wb - snap.ra, cfg.cap),
                    w,
                );
                if !nontrivial {
                    rep.bump("deadlocks_where_one_side_fits_the_pipe", 1);
                }
                "deadlock"
            }
            Outcome::Watchdog { snap } => {
                rep.inconclusive(format!("watchdog ({} s) fired without a deadlock state: case {i}, snapshot {}", watchdog.as_secs(), snap_json(snap)));
                "watchdog"
            }
        };
        *outcomes.entry(label).or_insert(0) += 1;
        if i < 3 {
            let mut s = base.clone();
            s["outcome"] = json!(label);
            rep.sample(s);
        }
    }
    rep.extra("outcomes", json!(outcomes));
    rep.finish(args);
}
