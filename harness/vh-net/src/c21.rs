//! C21 (codec variant) — two real `LogSync` peers over `tokio::io::duplex(n)` with the real
//! `p2panda_net::codec` framing (`FramedWrite` / `FramedRead` over `Codec<LogSyncMessage>`).
//!
//! Deadlock is decided on state, never on time: the byte pipes are wrapped so that every
//! `poll_write` / `poll_read` publishes the side's state (blocked in send / blocked in recv /
//! running) and byte counters. Verdict "both-blocked-in-send" ⇔ both sessions' last I/O poll was a
//! pending write, both pipes are full (written − read == capacity in both directions), neither
//! session has finished, and the identical snapshot is observed again >= 100 ms later. A watchdog
//! that fires without such a state is `inconclusive`.

use std::collections::BTreeMap;
use std::pin::Pin;
use std::sync::Arc;
use std::sync::atomic::{AtomicBool, AtomicU8, AtomicU64, Ordering};
use std::task::{Context, Poll};
use std::time::{Duration, Instant};

use std::collections::BTreeMap as Map;
use std::sync::atomic::AtomicUsize;

use futures_util::Stream;
use p2panda_core::{Body, Hash, Operation, SeqNum, VerifyingKey};
use p2panda_net::codec::Codec;
use p2panda_store::SqliteStore;
use p2panda_store::logs::LogStore;
use p2panda_sync::protocols::{LogSync, LogSyncEvent, Logs};
use p2panda_sync::test_utils::{Peer, TestLogSyncMessage};
use tokio::sync::broadcast;
use p2panda_sync::traits::Protocol;
use tokio::io::{AsyncRead, AsyncWrite, ReadBuf};
use tokio_util::codec::{FramedRead, FramedWrite};
use vh_common::{Args, Report, Rng, json};

const RUNNING: u8 = 0;
const BLOCKED_SEND: u8 = 1;
const BLOCKED_RECV: u8 = 2;

#[derive(Default)]
struct SideState {
    state: AtomicU8,
    written: AtomicU64,
    read: AtomicU64,
    write_polls_pending: AtomicU64,
    finished: AtomicBool,
    /// Store calls of this side's session that have started and not yet returned.
    store_calls_in_flight: AtomicUsize,
    /// The session kept polling a stream that had ended (see `EndGuard`).
    spinning_on_closed_stream: AtomicBool,
}

/// Delegating `LogStore` that publishes how many calls are in flight (the session is generic over
/// its store, so no hook is needed). With it "last I/O poll was a pending read and no store call
/// in flight" means the session is suspended in `stream.next()` and nowhere else.
#[derive(Clone)]
struct CountingStore {
    inner: SqliteStore,
    st: Arc<SideState>,
}

struct InFlight<'a>(&'a SideState);

impl<'a> InFlight<'a> {
    fn new(st: &'a SideState) -> Self {
        st.store_calls_in_flight.fetch_add(1, Ordering::SeqCst);
        InFlight(st)
    }
}

impl Drop for InFlight<'_> {
    fn drop(&mut self) {
        self.0.store_calls_in_flight.fetch_sub(1, Ordering::SeqCst);
    }
}

type Op = Operation<usize>;
type Inner = SqliteStore;
type StoreError = <Inner as LogStore<Op, VerifyingKey, usize, SeqNum, Hash>>::Error;

impl LogStore<Op, VerifyingKey, usize, SeqNum, Hash> for CountingStore {
    type Error = StoreError;

    async fn get_latest_entry(&self, author: &VerifyingKey, log_id: &usize) -> Result<Option<Op>, Self::Error> {
        let _g = InFlight::new(&self.st);
        <Inner as LogStore<Op, VerifyingKey, usize, SeqNum, Hash>>::get_latest_entry(&self.inner, author, log_id).await
    }
    async fn get_latest_entry_tx(&self, author: &VerifyingKey, log_id: &usize) -> Result<Option<Op>, Self::Error> {
        let _g = InFlight::new(&self.st);
        <Inner as LogStore<Op, VerifyingKey, usize, SeqNum, Hash>>::get_latest_entry_tx(&self.inner, author, log_id).await
    }
    async fn get_log_heights(&self, author: &VerifyingKey, logs: &[usize]) -> Result<Option<Map<usize, SeqNum>>, Self::Error> {
        let _g = InFlight::new(&self.st);
        <Inner as LogStore<Op, VerifyingKey, usize, SeqNum, Hash>>::get_log_heights(&self.inner, author, logs).await
    }
    async fn get_log_size(&self, author: &VerifyingKey, log_id: &usize, after: Option<SeqNum>, until: Option<SeqNum>) -> Result<Option<(u32, u32)>, Self::Error> {
        let _g = InFlight::new(&self.st);
        <Inner as LogStore<Op, VerifyingKey, usize, SeqNum, Hash>>::get_log_size(&self.inner, author, log_id, after, until).await
    }
    async fn get_log_entries(&self, author: &VerifyingKey, log_id: &usize, after: Option<SeqNum>, until: Option<SeqNum>) -> Result<Option<Vec<(Op, Vec<u8>)>>, Self::Error> {
        let _g = InFlight::new(&self.st);
        <Inner as LogStore<Op, VerifyingKey, usize, SeqNum, Hash>>::get_log_entries(&self.inner, author, log_id, after, until).await
    }
    async fn prune_entries(&self, author: &VerifyingKey, log_id: &usize, until: &SeqNum) -> Result<u64, Self::Error> {
        let _g = InFlight::new(&self.st);
        <Inner as LogStore<Op, VerifyingKey, usize, SeqNum, Hash>>::prune_entries(&self.inner, author, log_id, until).await
    }
}

/// Keeps the harness bounded: a session that polls an ended stream over and over without awaiting
/// anything would spin the (single) runtime thread forever. After 1000 consecutive `None`s the
/// guard marks the side and parks it.
struct EndGuard<S> {
    inner: S,
    nones: u32,
    st: Arc<SideState>,
}

impl<S: Stream + Unpin> Stream for EndGuard<S> {
    type Item = S::Item;
    fn poll_next(mut self: Pin<&mut Self>, cx: &mut Context<'_>) -> Poll<Option<Self::Item>> {
        if self.st.spinning_on_closed_stream.load(Ordering::SeqCst) {
            return Poll::Pending;
        }
        match Pin::new(&mut self.inner).poll_next(cx) {
            Poll::Ready(None) => {
                self.nones += 1;
                if self.nones > 1000 {
                    self.st.spinning_on_closed_stream.store(true, Ordering::SeqCst);
                    return Poll::Pending;
                }
                Poll::Ready(None)
            }
            other => {
                if matches!(other, Poll::Ready(Some(_))) {
                    self.nones = 0;
                }
                other
            }
        }
    }
}

struct W<T> {
    inner: T,
    st: Arc<SideState>,
}

impl<T: AsyncWrite + Unpin> AsyncWrite for W<T> {
    fn poll_write(mut self: Pin<&mut Self>, cx: &mut Context<'_>, buf: &[u8]) -> Poll<std::io::Result<usize>> {
        match Pin::new(&mut self.inner).poll_write(cx, buf) {
            Poll::Pending => {
                self.st.state.store(BLOCKED_SEND, Ordering::SeqCst);
                self.st.write_polls_pending.fetch_add(1, Ordering::Relaxed);
                Poll::Pending
            }
            Poll::Ready(r) => {
                if let Ok(n) = &r {
                    self.st.written.fetch_add(*n as u64, Ordering::SeqCst);
                }
                self.st.state.store(RUNNING, Ordering::SeqCst);
                Poll::Ready(r)
            }
        }
    }
    fn poll_flush(mut self: Pin<&mut Self>, cx: &mut Context<'_>) -> Poll<std::io::Result<()>> {
        match Pin::new(&mut self.inner).poll_flush(cx) {
            Poll::Pending => {
                self.st.state.store(BLOCKED_SEND, Ordering::SeqCst);
                Poll::Pending
            }
            r => r,
        }
    }
    fn poll_shutdown(mut self: Pin<&mut Self>, cx: &mut Context<'_>) -> Poll<std::io::Result<()>> {
        Pin::new(&mut self.inner).poll_shutdown(cx)
    }
}

struct R<T> {
    inner: T,
    st: Arc<SideState>,
}

impl<T: AsyncRead + Unpin> AsyncRead for R<T> {
    fn poll_read(mut self: Pin<&mut Self>, cx: &mut Context<'_>, buf: &mut ReadBuf<'_>) -> Poll<std::io::Result<()>> {
        let before = buf.filled().len();
        match Pin::new(&mut self.inner).poll_read(cx, buf) {
            Poll::Pending => {
                self.st.state.store(BLOCKED_RECV, Ordering::SeqCst);
                Poll::Pending
            }
            Poll::Ready(r) => {
                self.st.read.fetch_add((buf.filled().len() - before) as u64, Ordering::SeqCst);
                self.st.state.store(RUNNING, Ordering::SeqCst);
                Poll::Ready(r)
            }
        }
    }
}

#[derive(Clone, Copy, PartialEq, Debug)]
struct Snap {
    sa: u8,
    sb: u8,
    wa: u64,
    ra: u64,
    wb: u64,
    rb: u64,
    fa: bool,
    fb: bool,
    store_a: usize,
    store_b: usize,
    spin_a: bool,
    spin_b: bool,
}

fn snap(a: &SideState, b: &SideState) -> Snap {
    Snap {
        sa: a.state.load(Ordering::SeqCst),
        sb: b.state.load(Ordering::SeqCst),
        wa: a.written.load(Ordering::SeqCst),
        ra: a.read.load(Ordering::SeqCst),
        wb: b.written.load(Ordering::SeqCst),
        rb: b.read.load(Ordering::SeqCst),
        fa: a.finished.load(Ordering::SeqCst),
        fb: b.finished.load(Ordering::SeqCst),
        store_a: a.store_calls_in_flight.load(Ordering::SeqCst),
        store_b: b.store_calls_in_flight.load(Ordering::SeqCst),
        spin_a: a.spinning_on_closed_stream.load(Ordering::SeqCst),
        spin_b: b.spinning_on_closed_stream.load(Ordering::SeqCst),
    }
}

enum Outcome {
    Completed { err_a: Option<String>, err_b: Option<String> },
    Deadlock { shape: &'static str, snap: Snap },
    Watchdog { snap: Snap },
}

struct Config {
    cap: usize,
    ops_a: usize,
    ops_b: usize,
    body: usize,
}

async fn one(cfg: &Config, case: u64, watchdog: Duration) -> (Outcome, u64, u64) {
    let mut peer_a = Peer::new(case * 2 + 1).await;
    let mut peer_b = Peer::new(case * 2 + 2).await;
    let body = Body::new(&vec![0xabu8; cfg.body]);
    let (mut bytes_a, mut bytes_b) = (0u64, 0u64);
    for _ in 0..cfg.ops_a {
        let (h, hb) = peer_a.create_operation(&body, 0).await;
        bytes_a += hb.len() as u64 + h.payload_size as u64;
    }
    for _ in 0..cfg.ops_b {
        let (h, hb) = peer_b.create_operation(&body, 0).await;
        bytes_b += hb.len() as u64 + h.payload_size as u64;
    }
    let mut logs = Logs::default();
    logs.insert(peer_a.id(), vec![0usize]);
    logs.insert(peer_b.id(), vec![0usize]);
    let st_a = Arc::new(SideState::default());
    let st_b = Arc::new(SideState::default());
    type Session = LogSync<usize, usize, CountingStore, LogSyncEvent<usize>>;
    let (events_a_tx, _events_a) = broadcast::channel::<LogSyncEvent<usize>>(512);
    let (events_b_tx, _events_b) = broadcast::channel::<LogSyncEvent<usize>>(512);
    let session_a: Session = LogSync::new(CountingStore { inner: peer_a.store.clone(), st: st_a.clone() }, logs.clone(), events_a_tx);
    let session_b: Session = LogSync::new(CountingStore { inner: peer_b.store.clone(), st: st_b.clone() }, logs.clone(), events_b_tx);

    let (pipe_a, pipe_b) = tokio::io::duplex(cfg.cap);
    let (ra, wa) = tokio::io::split(pipe_a);
    let (rb, wb) = tokio::io::split(pipe_b);

    let run_side = |session: Session, r, w, st: Arc<SideState>| async move {
        let mut sink = FramedWrite::new(W { inner: w, st: st.clone() }, Codec::<TestLogSyncMessage>::new());
        let mut stream = EndGuard { inner: FramedRead::new(R { inner: r, st: st.clone() }, Codec::<TestLogSyncMessage>::new()), nones: 0, st: st.clone() };
        let res = session.run(&mut sink, &mut stream).await;
        st.finished.store(true, Ordering::SeqCst);
        // A finished peer closes its end of the connection (buffered bytes stay readable).
        drop(sink);
        drop(stream);
        res.map(|_| ()).map_err(|e| e.to_string())
    };
    let fa = run_side(session_a, ra, wa, st_a.clone());
    let fb = run_side(session_b, rb, wb, st_b.clone());

    let cap = cfg.cap as u64;
    let monitor = async {
        let t0 = Instant::now();
        let mut candidate: Option<(Snap, Instant)> = None;
        loop {
            tokio::time::sleep(Duration::from_millis(25)).await;
            let s = snap(&st_a, &st_b);
            let both_send = !s.fa && !s.fb && s.sa == BLOCKED_SEND && s.sb == BLOCKED_SEND && s.wa - s.rb == cap && s.wb - s.ra == cap;
            // The monitor shares one task with both sessions, so whenever it runs both sessions are
            // suspended at an await point. "Last I/O poll was a pending read" alone is not enough
            // (`select!` polls the stream and may then sit in a store query inside the other arm), so
            // the stall shape also requires that no store call is in flight: then each session is
            // suspended in `stream.next()` and nowhere else, both pipes are empty, and only the
            // other side could ever write — nothing can make progress.
            let both_recv = !s.fa && !s.fb && s.sa == BLOCKED_RECV && s.sb == BLOCKED_RECV && s.wa == s.rb && s.wb == s.ra
                && s.store_a == 0 && s.store_b == 0;
            if s.spin_a || s.spin_b {
                return Outcome::Deadlock { shape: "stall:polling-a-closed-stream", snap: s };
            }
            if both_send || both_recv {
                match candidate {
                    Some((c, since)) if c == s => {
                        if since.elapsed() >= Duration::from_millis(100) {
                            let shape = if both_send { "both-blocked-in-send" } else { "stall:both-waiting-in-recv:pipes-empty" };
                            return Outcome::Deadlock { shape, snap: s };
                        }
                    }
                    _ => candidate = Some((s, Instant::now())),
                }
            } else {
                candidate = None;
            }
            if t0.elapsed() > watchdog {
                return Outcome::Watchdog { snap: s };
            }
        }
    };
    let outcome = tokio::select! {
        (ra, rb) = async { tokio::join!(fa, fb) } => Outcome::Completed { err_a: ra.err(), err_b: rb.err() },
        o = monitor => o,
    };
    (outcome, bytes_a, bytes_b)
}

pub fn run(args: &Args) {
    let mut rep = Report::new(
        args,
        "configuration = duplex capacity n in {64 B .. 1 MiB} x operations per side in {0, 1, 3, 20} x \
         body size in {100 B, 8 KiB, 64 KiB}; both peers are real LogSync sessions over SqliteStore, \
         each syncing its own log to the other through FramedWrite/FramedRead with the real Codec. \
         Every 5th configuration has data on one side only. Verdicts on state: both blocked in a \
         pending write with both pipes full; both suspended in stream.next() with both pipes empty and \
         no store call in flight; a session polling an ended stream 1000 times in a row. Non-trivial = \
         both sides have more bytes to send than the pipe holds; distinct by (capacity, ops a, ops b, \
         body size).",
        10,
    );
    let rt = tokio::runtime::Builder::new_current_thread().enable_all().build().unwrap();
    let caps = [64usize, 256, 1024, 4096, 16 * 1024, 64 * 1024, 256 * 1024, 1024 * 1024];
    let volumes = [0usize, 1, 3, 20];
    let bodies = [100usize, 8 * 1024, 64 * 1024];
    let n = args.n(64, 800);
    let watchdog = Duration::from_secs(30);
    let mut outcomes: BTreeMap<&'static str, u64> = BTreeMap::new();
    for i in 0..n {
        let mut rng = Rng::fork(args.seed, i);
        let mut cfg = Config {
            cap: caps[(i as usize) % caps.len()],
            ops_a: *rng.pick(&volumes),
            ops_b: *rng.pick(&volumes),
            body: *rng.pick(&bodies),
        };
        // One-sided data is always part of the grid: every 5th configuration has data on one side only.
        if i % 5 == 4 {
            cfg.ops_a = *rng.pick(&volumes[1..]);
            cfg.ops_b = 0;
            if rng.bool() {
                std::mem::swap(&mut cfg.ops_a, &mut cfg.ops_b);
            }
        }
        if (cfg.ops_a == 0) != (cfg.ops_b == 0) {
            rep.bump("one_sided_configurations", 1);
        }
        if cfg.ops_a > 0 && cfg.ops_b > 0 {
            rep.bump("two_sided_configurations", 1);
        }
        let (outcome, bytes_a, bytes_b) = rt.block_on(one(&cfg, args.seed.wrapping_mul(1_000_003).wrapping_add(i), watchdog));
        let nontrivial = bytes_a > cfg.cap as u64 && bytes_b > cfg.cap as u64;
        rep.case(if nontrivial { Some((cfg.cap, cfg.ops_a, cfg.ops_b, cfg.body)) } else { None });
        let base = json!({"seed": args.seed, "case": i, "duplex_capacity": cfg.cap, "ops_a": cfg.ops_a, "ops_b": cfg.ops_b,
                          "body_bytes": cfg.body, "outbound_bytes_a": bytes_a, "outbound_bytes_b": bytes_b});
        let snap_json = |s: &Snap| json!({"state_a": s.sa, "state_b": s.sb, "written_a": s.wa, "read_a": s.ra, "written_b": s.wb, "read_b": s.rb,
                                           "pipe_a_to_b": s.wa - s.rb, "pipe_b_to_a": s.wb - s.ra, "finished_a": s.fa, "finished_b": s.fb,
                                           "store_calls_in_flight_a": s.store_a, "store_calls_in_flight_b": s.store_b,
                                           "polling_closed_stream_a": s.spin_a, "polling_closed_stream_b": s.spin_b,
                                           "legend": "state 0 running, 1 blocked in send, 2 blocked in recv"});
        let label = match &outcome {
            Outcome::Completed { err_a, err_b } => {
                if err_a.is_some() || err_b.is_some() {
                    let mut w = base.clone();
                    w["error_a"] = json!(err_a);
                    w["error_b"] = json!(err_b);
                    rep.violation("C21:session-failed-between-honest-peers", format!("a session returned an error: a={err_a:?} b={err_b:?}"), w);
                    "failed"
                } else {
                    "completed"
                }
            }
            Outcome::Deadlock { shape, snap } => {
                let mut w = base.clone();
                w["snapshot"] = snap_json(snap);
                rep.violation(
                    &format!("C21:{shape}"),
                    format!("duplex({}) with {} / {} operations of {} B: sessions in state {shape}, pipes hold {} / {} bytes of {}, no store call in flight, no progress over >= 100 ms",
                            cfg.cap, cfg.ops_a, cfg.ops_b, cfg.body, snap.wa - snap.rb, snap.wb - snap.ra, cfg.cap),
                    w,
                );
                if !nontrivial {
                    rep.bump("deadlocks_where_one_side_fits_the_pipe", 1);
                }
                "deadlock"
            }
            Outcome::Watchdog { snap } => {
                rep.inconclusive(format!("watchdog ({} s) fired without a deadlock state: case {i}, snapshot {}", watchdog.as_secs(), snap_json(snap)));
                "watchdog"
            }
        };
        *outcomes.entry(label).or_insert(0) += 1;
        if i < 3 {
            let mut s = base.clone();
            s["outcome"] = json!(label);
            rep.sample(s);
        }
    }
    rep.extra("outcomes", json!(outcomes));
    rep.finish(args);
}
