//! C28 — the discovery backoff stays within `initial ..= max` after every call and returns to
//! `initial` once the reset interval has elapsed (hook H5: `discovery::verif::{Backoff, Config}`).
//!
//! The backoff reads `std::time::Instant` (real, monotone) in this build; the reset stage uses
//! reset windows of 5..20 ms and a real 25 ms sleep, which is a lower bound on elapsed time, so no
//! timing false alarm is possible.

use std::time::{Duration, Instant};

use p2panda_net::discovery::verif::{Backoff, Config};
use rand::SeedableRng;
use rand_chacha::ChaCha20Rng;
use vh_common::{Args, Report, Rng, catch, json};

#[derive(Clone, Debug)]
struct Cfg {
    name: &'static str,
    initial: u64,
    min_inc: u64,
    max_inc: u64,
    max: u64,
    min_reset: u64,
    max_reset: u64,
}

impl Cfg {
    fn build(&self) -> Config {
        let ms = Duration::from_millis;
        Config::verif_new(ms(self.initial), ms(self.min_inc), ms(self.max_inc), ms(self.max), ms(self.min_reset), ms(self.max_reset))
    }
    fn json(&self) -> vh_common::Value {
        json!({"name": self.name, "initial_ms": self.initial, "min_increment_ms": self.min_inc, "max_increment_ms": self.max_inc,
               "max_value_ms": self.max, "min_reset_ms": self.min_reset, "max_reset_ms": self.max_reset})
    }
}

fn configs(rng: &mut Rng) -> Cfg {
    match rng.below(6) {
        0 => Cfg { name: "default", initial: 0, min_inc: 1000, max_inc: 5000, max: 30_000, min_reset: 60_000, max_reset: 180_000 },
        1 => Cfg { name: "tiny-steps", initial: 0, min_inc: 0, max_inc: 2, max: 50, min_reset: 60_000, max_reset: 180_000 },
        2 => Cfg { name: "initial-equals-max", initial: 700, min_inc: 1, max_inc: 10, max: 700, min_reset: 60_000, max_reset: 180_000 },
        3 => Cfg { name: "fast-reset", initial: 3, min_inc: 1, max_inc: 40, max: 100, min_reset: 0, max_reset: 2 },
        _ => {
            let max = 1 + rng.below(100_000);
            let initial = rng.below(max + 1);
            let min_inc = rng.below(5_000);
            let max_inc = min_inc + 1 + rng.below(20_000);
            Cfg { name: "random", initial, min_inc, max_inc, max, min_reset: 60_000, max_reset: 180_000 }
        }
    }
}

pub fn run(args: &Args) {
    vh_common::quiet_panics();
    let mut rep = Report::new(
        args,
        "sequence = one config (default, tiny steps, initial == max, fast reset, random with initial \
         <= max and min_increment < max_increment) x one ChaCha20 seed x 200 calls (increment, 5% \
         reset), value read through Backoff::verif_value after every call. Reset stage: backoffs with \
         reset window 5..20 ms, some increments, a real sleep of 25 ms, then one increment. \
         Non-trivial = some call started below max with value + max_increment > max (the ceiling was \
         in reach) ; distinct by (config, seed).",
        200,
    );
    let seqs = args.n(10_000, 5_000_000);
    let mut max_overshoot_ms = 0u64;
    let mut reached_ceiling = 0u64;
    for i in 0..seqs {
        let mut rng = Rng::fork(args.seed, i);
        let cfg = configs(&mut rng);
        let chacha = rng.array32();
        let mut b = Backoff::new(cfg.build(), ChaCha20Rng::from_seed(chacha));
        let (initial, max) = (Duration::from_millis(cfg.initial), Duration::from_millis(cfg.max));
        let mut ceiling_in_reach = false;
        let mut trace: Vec<String> = Vec::new();
        let v0 = b.verif_value();
        if v0 != initial {
            rep.violation("C28:fresh-backoff-not-initial", format!("new backoff has value {v0:?}, initial is {initial:?}"), json!({"seed": args.seed, "case": i, "config": cfg.json()}));
        }
        for step in 0..200u32 {
            let before = b.verif_value();
            let is_reset = rng.chance(0.05);
            if is_reset {
                b.reset();
            } else {
                if before < max && before + Duration::from_millis(cfg.max_inc) > max {
                    ceiling_in_reach = true;
                }
                b.increment();
            }
            let v = b.verif_value();
            if trace.len() < 40 {
                trace.push(format!("{}:{}ms", if is_reset { "reset" } else { "inc" }, v.as_millis()));
            }
            rep.bump("calls", 1);
            if v == max {
                reached_ceiling += 1;
            }
            if v > max {
                max_overshoot_ms = max_overshoot_ms.max((v - max).as_millis() as u64);
                rep.violation(
                    "C28:value-above-max",
                    format!("after call {step} the backoff is {} ms, configured maximum {} ms ({})", v.as_millis(), cfg.max, cfg.name),
                    json!({"seed": args.seed, "case": i, "config": cfg.json(), "chacha_seed": vh_common::hex(&chacha), "step": step,
                           "value_ms": v.as_millis() as u64, "before_ms": before.as_millis() as u64, "trace_head": trace}),
                );
                break;
            }
            if v < initial {
                rep.violation(
                    "C28:value-below-initial",
                    format!("after call {step} the backoff is {} ms, initial {} ms", v.as_millis(), cfg.initial),
                    json!({"seed": args.seed, "case": i, "config": cfg.json(), "chacha_seed": vh_common::hex(&chacha), "step": step, "trace_head": trace}),
                );
                break;
            }
            if is_reset && v != initial {
                rep.violation(
                    "C28:reset-does-not-restore-initial",
                    format!("reset() left the backoff at {} ms, initial {} ms", v.as_millis(), cfg.initial),
                    json!({"seed": args.seed, "case": i, "config": cfg.json(), "step": step}),
                );
                break;
            }
        }
        rep.case(if ceiling_in_reach { Some((cfg.name, cfg.max, cfg.max_inc, chacha)) } else { None });
        if i < 2 {
            rep.sample(json!({"config": cfg.json(), "trace_head": trace}));
        }
    }
    rep.extra("max_overshoot_ms", json!(max_overshoot_ms));
    rep.extra("calls_ending_exactly_at_max", json!(reached_ceiling));

    // Reset after real elapsed time >= max_reset.
    let rounds = args.n(4, 40);
    let per_round = 250u64;
    for r in 0..rounds {
        let mut pool = Vec::new();
        for k in 0..per_round {
            let mut rng = Rng::fork(args.seed ^ 0x28aa, r * per_round + k);
            let initial = rng.below(50);
            let cfg = Cfg { name: "reset-5-20ms", initial, min_inc: 1 + rng.below(10), max_inc: 20 + rng.below(100), max: initial + 1 + rng.below(2000), min_reset: 5, max_reset: 20 };
            let chacha = rng.array32();
            let mut b = Backoff::new(cfg.build(), ChaCha20Rng::from_seed(chacha));
            let incs = 1 + rng.below(8);
            for _ in 0..incs {
                b.increment();
            }
            pool.push((cfg, chacha, b, incs));
        }
        let t0 = Instant::now();
        std::thread::sleep(Duration::from_millis(25));
        let slept = t0.elapsed();
        for (k, (cfg, chacha, mut b, incs)) in pool.into_iter().enumerate() {
            let before = b.verif_value();
            b.increment();
            let v = b.verif_value();
            rep.case(Some(("reset", r, k)));
            rep.bump("reset_probes", 1);
            if v != Duration::from_millis(cfg.initial) {
                rep.violation(
                    "C28:no-reset-after-max_reset",
                    format!("{} ms after the last call (max_reset 20 ms) increment() left the backoff at {} ms, initial is {} ms", slept.as_millis(), v.as_millis(), cfg.initial),
                    json!({"seed": args.seed, "round": r, "index": k, "config": cfg.json(), "chacha_seed": vh_common::hex(&chacha),
                           "increments_before_sleep": incs, "value_before_ms": before.as_millis() as u64, "slept_ms": slept.as_millis() as u64}),
                );
            }
        }
    }

    // Degenerate configs (empty random ranges): recorded, not judged — the statement is about bounds.
    let mut degenerate_panics = 0u64;
    for (min_inc, max_inc, min_reset, max_reset) in [(0u64, 0u64, 0u64, 0u64), (5, 5, 10, 20), (1, 2, 7, 7)] {
        let cfg = Cfg { name: "degenerate", initial: 0, min_inc, max_inc, max: 10, min_reset, max_reset };
        let r = catch(move || {
            let mut b = Backoff::new(cfg.build(), ChaCha20Rng::from_seed([3; 32]));
            b.increment();
        });
        if r.is_err() {
            degenerate_panics += 1;
        }
    }
    rep.extra("degenerate_configs_tried", json!(3));
    rep.extra("degenerate_configs_panicking_recorded_not_judged", json!(degenerate_panics));
    rep.finish(args);
}
