//! Harness over `p2panda-net` / `p2panda-discovery`.
//!
//! C26 wire framing, C27 address book LWW, C28 discovery backoff bounds, C29 gossip overlay
//! reference counting (probe actor behind `Gossip::verif_from_actor`), C30 confidential discovery,
//! plus two stages that the lead merges into properties owned elsewhere: `C18` (self-published
//! transport records are always accepted as newer) and `C21` (codec/duplex variant of the log
//! sync deadlock check).
//!
//! Clock note: `p2panda-core/test_utils` is enabled in this build, so `Timestamp::now()` reads the
//! thread-local `mock_instant` clock (0 in every fresh thread). Only C18 depends on it; C27 sets
//! all timestamps explicitly; C28 uses `std::time::Instant` (real, monotone).

mod c18;
mod c18b;
mod c21;
mod c26;
mod c27;
mod c28;
mod c29;
mod c30;

use vh_common::Args;

fn main() {
    let args = Args::parse();
    match args.prop.as_str() {
        "C18" => c18::run(&args),
        "C21" => c21::run(&args),
        "C26" => c26::run(&args),
        "C27" => c27::run(&args),
        "C28" => c28::run(&args),
        "C29" => c29::run(&args),
        "C30" => c30::run(&args),
        other => panic!("vh-net does not serve {other}"),
    }
}
