//! C18 (second half) — a node's successive self-published transport records are always accepted
//! as newer than its previous one, whatever the wall clock reads.
//!
//! Mirrors `iroh_endpoint/discovery.rs::publish`: previous = stored authenticated record,
//! `UnsignedTransportInfo::from_addrs(..)` (reads `HybridTimestamp::now()`),
//! `.increment_timestamp(previous)`, `.sign(key)`, then `NodeInfo::update_transports` (pure) /
//! `AddressBook::insert_transport_info` (actor) must answer `is_newer == true` and store the record.
//! The wall clock is the repo's `test_utils` mock (thread-local `mock_instant`), set earlier /
//! equal / later than the previous record's wall part.

use std::net::SocketAddr;
use std::time::Duration;

use mock_instant::thread_local::MockClock;
use p2panda_core::SigningKey;
use p2panda_net::AddressBook;
use p2panda_net::addrs::{NodeInfo, TransportAddress, TransportInfo, UnsignedTransportInfo};
use p2panda_store::address_book::NodeInfo as _;
use vh_common::{Args, Report, Rng, json};

fn set_clock(micros: u64) {
    MockClock::set_system_time(Duration::from_micros(micros));
}

fn class(prev_wall: u64, now: u64) -> &'static str {
    if now < prev_wall {
        "clock-behind"
    } else if now == prev_wall {
        "clock-equal"
    } else {
        "clock-ahead"
    }
}

pub fn run(args: &Args) {
    let mut rep = Report::new(
        args,
        "chain = one node key publishing 20..100 successive transport records (distinct addresses) \
         the way iroh_endpoint/discovery.rs does, while the mock wall clock is held, moved forward, \
         stepped back (by 1 us .. 2^40 us), set to 0 and to a far future and back; each record goes \
         through NodeInfo::update_transports on the node's own entry and on a second observer's \
         entry; every 10th chain also through a real AddressBook. Non-trivial = the chain contains \
         a publish with the clock behind or equal to the previous record's wall time; distinct by \
         (chain, number of such publishes). Third part: the real AddressBookDiscovery::publish over a \
         real AddressBook, bursts of 2..6 back-to-back publish calls with different endpoint data \
         (one spawned task each) with the mock clock held / stepped back / stepped forward between \
         bursts; at quiescence the stored own record must carry the last publish's addresses.",
        50,
    );
    let rt = tokio::runtime::Builder::new_current_thread().enable_all().build().unwrap();
    let book = rt.block_on(AddressBook::builder().spawn()).expect("address book spawns offline");
    let chains = args.n(400, 20_000);
    let mut by_class = [0u64; 3];
    for c in 0..chains {
        let mut rng = Rng::fork(args.seed, c);
        let key = SigningKey::from_bytes(&rng.array32());
        let id = key.verifying_key();
        let through_book = c % 10 == 0;
        let mut own = NodeInfo::new(id);
        let mut observer = NodeInfo::new(id);
        let mut clock = match rng.below(3) {
            0 => rng.below(1000),
            1 => 1_700_000_000_000_000 + rng.below(1 << 40),
            _ => rng.next_u64() >> (2 + rng.below(30)),
        };
        let len = 20 + rng.usize_below(81);
        let mut hard = 0u64;
        let mut trace: Vec<String> = Vec::new();
        'chain: for step in 0..len {
            match rng.below(8) {
                0 | 1 => {}
                2 | 3 => clock = clock.saturating_add(1 + rng.mag(30)),
                4 | 5 => clock = clock.saturating_sub(1 + rng.mag(41)),
                6 => clock = 0,
                _ => clock = clock.saturating_add(1 << 45),
            }
            set_clock(clock);
            let previous = own.transports();
            let prev_wall: Option<u64> = previous.as_ref().map(|p| p.timestamp.to_parts().0.into());
            let sock = SocketAddr::from(([10, 0, (step >> 8) as u8, step as u8], 5000 + step as u16));
            let record = UnsignedTransportInfo::from_addrs([TransportAddress::from_iroh(id, None, [sock])])
                .increment_timestamp(previous.as_ref())
                .sign(&key)
                .expect("sign");
            let cl = prev_wall.map(|w| class(w, clock)).unwrap_or("first");
            match cl {
                "clock-behind" => { by_class[0] += 1; hard += 1 }
                "clock-equal" => { by_class[1] += 1; hard += 1 }
                "clock-ahead" => by_class[2] += 1,
                _ => {}
            }
            if trace.len() < 30 {
                trace.push(format!("clock={clock} {cl} -> ts {}", record.timestamp));
            }
            let info: TransportInfo = record.clone().into();
            let mut results = vec![
                ("own-entry", own.update_transports(info.clone()).map_err(|e| e.to_string()), own.transports.clone()),
                ("observer-entry", observer.update_transports(info.clone()).map_err(|e| e.to_string()), observer.transports.clone()),
            ];
            if through_book {
                let (r, stored) = rt.block_on(async {
                    let r = book.insert_transport_info(id, info.clone()).await.map_err(|e| e.to_string());
                    let stored = book.node_info(id).await.expect("node_info").and_then(|n| n.transports);
                    (r, stored)
                });
                results.push(("address-book", r, stored));
                rep.bump("address_book_publishes", 1);
            }
            rep.bump("publishes", 1);
            for (whom, result, stored) in results {
                let ok = matches!(result, Ok(true)) && stored.as_ref() == Some(&info);
                if !ok {
                    rep.violation(
                        &format!("C18:self-published-record-not-newer:{cl}"),
                        format!("publish {step} of chain {c} ({whom}): clock {clock}, previous record {:?}, new record ts {} -> {result:?}",
                                previous.as_ref().map(|p| p.timestamp.to_string()), record.timestamp),
                        json!({"seed": args.seed, "chain": c, "step": step, "where": whom, "clock_micros": clock,
                               "previous_ts": previous.as_ref().map(|p| p.timestamp.to_string()), "new_ts": record.timestamp.to_string(),
                               "result": format!("{result:?}"), "trace_head": trace}),
                    );
                    break 'chain;
                }
            }
        }
        rep.case(if hard > 0 { Some((c, hard)) } else { None });
        if c < 2 {
            rep.sample(json!({"chain": c, "publishes": len, "trace_head": trace}));
        }
    }
    rep.extra("publishes_clock_behind", json!(by_class[0]));
    rep.extra("publishes_clock_equal", json!(by_class[1]));
    rep.extra("publishes_clock_ahead", json!(by_class[2]));
    // Real AddressBookDiscovery::publish (hook H7): bursts of concurrent publish tasks.
    crate::c18b::run_part(args, &mut rep, &rt);
    rep.finish(args);
}
