//! C29 — the gossip overlay of a topic is left exactly when the last handle or subscription is
//! dropped, and a handle returned while another one is being dropped concurrently is always backed
//! by an active subscription.
//!
//! The real `Gossip` / `GossipHandle` / `GossipSubscription` / `TopicDropGuard` code runs against a
//! harness-owned ractor actor (hook H4, `Gossip::verif_from_actor`). The probe handles
//! `Subscribe` / `Unsubscribe` the way `gossip/actors/manager.rs` does as far as the API can tell:
//! `Subscribe` creates a fresh channel pair and makes it the topic's current session (overwriting
//! an earlier one, which then leaks); `Unsubscribe` closes the topic's *current* session (the real
//! session actor owns the receiving end, stopping it closes the channel) and is a no-op if there is
//! none. Every probe event and every harness call / return is appended to one global, totally
//! ordered log.
//!
//! Oracle, per topic, over the merged log and at two quiescence points (Q1: scripts finished, some
//! objects alive; Q2: everything dropped), after flushing the actor mailbox with an RPC:
//!  (B) `Subscribe` and `Unsubscribe` alternate: a `Subscribe` while a generation is open is "two
//!      Subscribe for one topic without Unsubscribe between"; an `Unsubscribe` with no generation
//!      open is a double unsubscribe.
//!  (C) when an `Unsubscribe` is handled no object of the topic is alive in the harness's books
//!      (alive = creation returned, drop not yet called) — `Unsubscribe` only after the last drop.
//!  (Q1) if objects are alive: a generation is open, `publish` on every live handle succeeds and
//!      arrives at the open generation, every live subscription receives an injected message.
//!  (Q2) nothing alive => no generation open (the overlay was left).
//! Handling delay of the actor is not judged: all checks are either at quiescence or only use the
//! order "drop called before Unsubscribe handled", which causality guarantees for correct code.

use std::collections::{HashMap, HashSet};
use std::sync::atomic::{AtomicU64, Ordering};
use std::sync::{Arc, Mutex};
use std::time::{Duration, Instant};

use futures_util::{FutureExt, StreamExt};
use p2panda_core::{SigningKey, Topic};
use p2panda_net::gossip::{Gossip, GossipConfig, GossipHandle, GossipSubscription, ToGossipManager};
use p2panda_net::AddressBook;
use ractor::{Actor, ActorProcessingErr, ActorRef, call};
use tokio::sync::{Barrier, broadcast, mpsc};
use vh_common::{Args, Report, Rng, Value, hash_of, json};

// ------------------------------------------------------------------------------------------------
// Global ordered log
// ------------------------------------------------------------------------------------------------

#[derive(Clone, Debug, PartialEq)]
enum Ev {
    Subscribe { topic: usize, generation: u32 },
    Unsubscribe { topic: usize, closed: Option<u32> },
    StreamCall { task: usize, topic: usize },
    StreamRet { task: usize, topic: usize, obj: u32, ok: bool },
    NewObj { task: usize, topic: usize, obj: u32, how: &'static str },
    DropCall { task: usize, topic: usize, obj: u32 },
    DropRet { task: usize, obj: u32 },
    Hook { name: &'static str, paused_us: u64 },
}

static LOG: Mutex<Vec<Ev>> = Mutex::new(Vec::new());

fn log(ev: Ev) {
    LOG.lock().unwrap().push(ev);
}

fn spin(us: u64) {
    if us == 0 {
        return;
    }
    let t = Instant::now();
    while t.elapsed() < Duration::from_micros(us) {
        std::hint::spin_loop();
    }
}

// Hook configuration for the current round: permille | max_us << 16 | seed << 32.
static HOOK_CFG: AtomicU64 = AtomicU64::new(0);
static HOOK_CALLS: AtomicU64 = AtomicU64::new(0);
static HOOK_LIVENESS: AtomicU64 = AtomicU64::new(0);
static HOOK_SUBSCRIBE: AtomicU64 = AtomicU64::new(0);

fn hook(name: &'static str) {
    match name {
        "gossip_stream:after_liveness_check" => HOOK_LIVENESS.fetch_add(1, Ordering::Relaxed),
        "gossip_stream:before_subscribe" => HOOK_SUBSCRIBE.fetch_add(1, Ordering::Relaxed),
        _ => return,
    };
    let cfg = HOOK_CFG.load(Ordering::Relaxed);
    let (permille, max_us, seed) = (cfg & 0xffff, (cfg >> 16) & 0xffff, cfg >> 32);
    let n = HOOK_CALLS.fetch_add(1, Ordering::Relaxed);
    let mut r = Rng::fork(seed, n);
    let us = if r.below(1000) < permille && max_us > 0 { r.range(1, max_us) } else { 0 };
    log(Ev::Hook { name, paused_us: us });
    spin(us);
}

// ------------------------------------------------------------------------------------------------
// Probe actor
// ------------------------------------------------------------------------------------------------

struct Generation {
    id: u32,
    rx: Option<mpsc::Receiver<Vec<u8>>>,
    from_gossip_tx: broadcast::Sender<Vec<u8>>,
}

#[derive(Default)]
struct ProbeState {
    topic_ix: HashMap<Topic, usize>,
    generations: HashMap<usize, Vec<Generation>>,
    /// The topic's current session, as `sessions_by_topic` in the real manager.
    current: HashMap<usize, u32>,
    next_generation: u32,
}

type Shared = Arc<Mutex<ProbeState>>;

struct Probe;

impl Actor for Probe {
    type Msg = ToGossipManager;
    type State = Shared;
    type Arguments = Shared;

    async fn pre_start(&self, _myself: ActorRef<Self::Msg>, args: Shared) -> Result<Shared, ActorProcessingErr> {
        Ok(args)
    }

    async fn handle(&self, _myself: ActorRef<Self::Msg>, message: Self::Msg, state: &mut Shared) -> Result<(), ActorProcessingErr> {
        match message {
            ToGossipManager::Subscribe(topic, _nodes, reply) => {
                let (to_gossip_tx, to_gossip_rx) = mpsc::channel(128);
                let (from_gossip_tx, _) = broadcast::channel(128);
                {
                    let mut s = state.lock().unwrap();
                    let ix = *s.topic_ix.get(&topic).expect("topic registered by the harness");
                    let id = s.next_generation;
                    s.next_generation += 1;
                    log(Ev::Subscribe { topic: ix, generation: id });
                    s.generations.entry(ix).or_default().push(Generation { id, rx: Some(to_gossip_rx), from_gossip_tx: from_gossip_tx.clone() });
                    s.current.insert(ix, id);
                }
                let _ = reply.send((to_gossip_tx, from_gossip_tx));
            }
            ToGossipManager::Unsubscribe(topic) => {
                let mut s = state.lock().unwrap();
                let ix = *s.topic_ix.get(&topic).expect("topic registered by the harness");
                let closed = s.current.remove(&ix);
                log(Ev::Unsubscribe { topic: ix, closed });
                if let Some(id) = closed {
                    for g in s.generations.get_mut(&ix).unwrap() {
                        if g.id == id {
                            g.rx = None; // the session actor stops: the channel closes
                        }
                    }
                }
            }
            ToGossipManager::Events(reply) => {
                let (tx, rx) = broadcast::channel(1);
                drop(tx);
                let _ = reply.send(rx);
            }
            _ => {}
        }
        Ok(())
    }
}

// ------------------------------------------------------------------------------------------------
// Workload
// ------------------------------------------------------------------------------------------------

enum Kind {
    Handle(GossipHandle),
    Sub(GossipSubscription),
}

struct Obj {
    id: u32,
    topic: usize,
    kind: Kind,
}

#[derive(Clone, Debug)]
enum Op {
    Stream(usize),
    Subscribe(usize),
    CloneHandle(usize),
    Drop(usize),
    Spin(u64),
    Yield,
}

fn op_json(op: &Op) -> String {
    format!("{op:?}")
}

static NEXT_OBJ: AtomicU64 = AtomicU64::new(0);

fn new_obj_id() -> u32 {
    NEXT_OBJ.fetch_add(1, Ordering::Relaxed) as u32
}

async fn run_script(task: usize, gossip: Gossip, topics: Vec<Topic>, script: Vec<Op>, mut held: Vec<Obj>, barrier: Arc<Barrier>) -> Vec<Obj> {
    barrier.wait().await;
    for op in script {
        match op {
            Op::Stream(t) => {
                log(Ev::StreamCall { task, topic: t });
                let res = gossip.stream(topics[t]).await;
                let id = new_obj_id();
                log(Ev::StreamRet { task, topic: t, obj: id, ok: res.is_ok() });
                if let Ok(h) = res {
                    held.push(Obj { id, topic: t, kind: Kind::Handle(h) });
                }
            }
            Op::Subscribe(slot) | Op::CloneHandle(slot) => {
                let handles: Vec<usize> = held.iter().enumerate().filter(|(_, o)| matches!(o.kind, Kind::Handle(_))).map(|(i, _)| i).collect();
                if handles.is_empty() {
                    continue;
                }
                let src = handles[slot % handles.len()];
                let topic = held[src].topic;
                let Kind::Handle(h) = &held[src].kind else { unreachable!() };
                let (kind, how) = if matches!(op, Op::Subscribe(_)) { (Kind::Sub(h.subscribe()), "subscribe") } else { (Kind::Handle(h.clone()), "clone") };
                let id = new_obj_id();
                log(Ev::NewObj { task, topic, obj: id, how });
                held.push(Obj { id, topic, kind });
            }
            Op::Drop(slot) => {
                if held.is_empty() {
                    continue;
                }
                let o = held.remove(slot % held.len());
                log(Ev::DropCall { task, topic: o.topic, obj: o.id });
                let id = o.id;
                drop(o);
                log(Ev::DropRet { task, obj: id });
            }
            Op::Spin(us) => spin(us),
            Op::Yield => tokio::task::yield_now().await,
        }
    }
    held
}

fn random_ops(rng: &mut Rng, n: usize, n_topics: usize) -> Vec<Op> {
    (0..n)
        .map(|_| match rng.below(10) {
            0..=3 => Op::Stream(rng.usize_below(n_topics)),
            4..=6 => Op::Drop(rng.usize_below(8)),
            7 => Op::Subscribe(rng.usize_below(8)),
            8 => Op::CloneHandle(rng.usize_below(8)),
            _ => {
                if rng.bool() {
                    Op::Spin(rng.below(60))
                } else {
                    Op::Yield
                }
            }
        })
        .collect()
}

struct Plan {
    pattern: &'static str,
    n_topics: usize,
    /// Task 0 obtains this many handles (topic 0) sequentially before the barrier.
    pre_handles: usize,
    scripts: Vec<Vec<Op>>,
    hook_permille: u64,
    hook_max_us: u64,
    concurrent_final_drop: bool,
}

fn plan(rng: &mut Rng) -> Plan {
    let hook_permille = *rng.pick(&[0u64, 200, 1000, 1000]);
    // mostly short pauses (0..100 us); one round in ten pauses up to 1.5 ms so that a whole
    // drop + re-subscribe fits into the window
    let hook_max_us = *rng.pick(&[20u64, 60, 100, 20, 60, 100, 100, 60, 100, 1500]);
    let n_topics = if rng.chance(0.25) { 2 } else { 1 };
    let (pattern, pre_handles, scripts) = match rng.below(4) {
        0 => {
            // Fresh topic, several concurrent stream() calls.
            let k = 2 + rng.usize_below(3);
            let scripts = (0..k)
                .map(|_| {
                    let mut s = vec![Op::Spin(rng.below(40)), Op::Stream(0)];
                    let extra = rng.usize_below(4);
                    s.extend(random_ops(rng, extra, n_topics));
                    s
                })
                .collect();
            ("fresh-concurrent-stream", 0, scripts)
        }
        1 => {
            // Last handle dropped while others call stream().
            let k = 1 + rng.usize_below(3);
            let mut scripts = vec![vec![Op::Spin(rng.below(120)), Op::Drop(0)]];
            for _ in 0..k {
                let mut s = vec![Op::Spin(rng.below(60)), Op::Stream(0)];
                let extra = rng.usize_below(3);
                s.extend(random_ops(rng, extra, n_topics));
                scripts.push(s);
            }
            ("drop-last-vs-stream", 1, scripts)
        }
        2 => {
            // Churn: stream/drop loops on the same topic.
            let k = 2 + rng.usize_below(2);
            let scripts = (0..k)
                .map(|_| {
                    let mut s = Vec::new();
                    for _ in 0..1 + rng.below(4) {
                        s.push(Op::Stream(0));
                        if rng.bool() {
                            s.push(Op::Spin(rng.below(30)));
                        }
                        s.push(Op::Drop(0));
                    }
                    s
                })
                .collect();
            ("churn", 0, scripts)
        }
        _ => {
            let k = 2 + rng.usize_below(7);
            let scripts = (0..k).map(|_| { let n = 2 + rng.usize_below(5); random_ops(rng, n, n_topics) }).collect();
            ("random", if rng.bool() { 1 } else { 0 }, scripts)
        }
    };
    Plan { pattern, n_topics, pre_handles, scripts, hook_permille, hook_max_us, concurrent_final_drop: rng.bool() }
}

struct Finding {
    signature: &'static str,
    what: String,
}

/// (B) + (C) over the merged log; also derives the non-triviality facts.
fn check_log(events: &[Ev], n_topics: usize) -> (Vec<Finding>, bool) {
    let mut findings: Vec<Finding> = Vec::new();
    let mut push = |sig: &'static str, what: String| {
        if !findings.iter().any(|f| f.signature == sig) {
            findings.push(Finding { signature: sig, what });
        }
    };
    let mut open: Vec<Option<u32>> = vec![None; n_topics];
    let mut live: Vec<HashSet<u32>> = vec![HashSet::new(); n_topics];
    // Intervals for the non-triviality rule.
    let mut stream_open: HashMap<usize, (usize, usize)> = HashMap::new(); // task -> (topic, start index)
    let mut stream_iv: Vec<(usize, usize, usize, bool)> = Vec::new(); // (topic, start, end, started without open generation)
    let mut drop_open: HashMap<u32, (usize, usize, bool)> = HashMap::new(); // obj -> (topic, start, was last)
    let mut last_drop_iv: Vec<(usize, usize, usize)> = Vec::new();
    let mut fresh_at_call: HashMap<usize, bool> = HashMap::new();
    for (i, e) in events.iter().enumerate() {
        match e {
            Ev::Subscribe { topic, generation } => {
                if let Some(g) = open[*topic] {
                    push("C29:two-subscribe-without-unsubscribe-between", format!("Subscribe (generation {generation}) at log index {i} while generation {g} of the same topic is still subscribed: two reference counters for one overlay"));
                }
                open[*topic] = Some(*generation);
            }
            Ev::Unsubscribe { topic, .. } => {
                match open[*topic] {
                    None => push("C29:unsubscribe-without-open-generation", format!("Unsubscribe at log index {i} although no generation of the topic is subscribed (second Unsubscribe for one generation)")),
                    Some(g) => {
                        if !live[*topic].is_empty() {
                            let mut l: Vec<_> = live[*topic].iter().cloned().collect();
                            l.sort();
                            push("C29:unsubscribe-while-handle-live", format!("Unsubscribe of generation {g} handled at log index {i} while objects {l:?} of the topic are alive (returned, not yet dropped)"));
                        }
                    }
                }
                open[*topic] = None;
            }
            Ev::StreamCall { task, topic } => {
                stream_open.insert(*task, (*topic, i));
                fresh_at_call.insert(*task, open[*topic].is_none());
            }
            Ev::StreamRet { task, topic, obj, ok } => {
                if let Some((t, start)) = stream_open.remove(task) {
                    stream_iv.push((t, start, i, fresh_at_call.remove(task).unwrap_or(false)));
                }
                if *ok {
                    live[*topic].insert(*obj);
                }
            }
            Ev::NewObj { topic, obj, .. } => {
                live[*topic].insert(*obj);
            }
            Ev::DropCall { topic, obj, .. } => {
                live[*topic].remove(obj);
                drop_open.insert(*obj, (*topic, i, live[*topic].is_empty()));
            }
            Ev::DropRet { obj, .. } => {
                if let Some((t, start, last)) = drop_open.remove(obj) {
                    if last {
                        last_drop_iv.push((t, start, i));
                    }
                }
            }
            Ev::Hook { .. } => {}
        }
    }
    let overlap = |a: (usize, usize), b: (usize, usize)| a.0 < b.1 && b.0 < a.1;
    let mut nontrivial = false;
    for d in &last_drop_iv {
        for s in &stream_iv {
            if d.0 == s.0 && overlap((d.1, d.2), (s.1, s.2)) {
                nontrivial = true;
            }
        }
    }
    for (i, a) in stream_iv.iter().enumerate() {
        for b in stream_iv.iter().skip(i + 1) {
            if a.0 == b.0 && a.3 && b.3 && overlap((a.1, a.2), (b.1, b.2)) {
                nontrivial = true;
            }
        }
    }
    (findings, nontrivial)
}

fn log_shape(events: &[Ev]) -> u64 {
    let shape: Vec<(u8, usize)> = events
        .iter()
        .filter_map(|e| match e {
            Ev::Subscribe { topic, .. } => Some((0, *topic)),
            Ev::Unsubscribe { topic, .. } => Some((1, *topic)),
            Ev::StreamCall { task, .. } => Some((2, *task)),
            Ev::StreamRet { task, .. } => Some((3, *task)),
            Ev::NewObj { task, .. } => Some((4, *task)),
            Ev::DropCall { task, .. } => Some((5, *task)),
            Ev::DropRet { task, .. } => Some((6, *task)),
            Ev::Hook { .. } => None,
        })
        .collect();
    hash_of(&shape)
}

struct Env {
    gossip: Gossip,
    actor: ActorRef<ToGossipManager>,
    shared: Shared,
}

async fn flush(env: &Env) -> bool {
    call!(env.actor, ToGossipManager::Events).is_ok()
}

/// Q1 / Q2: state of the probe against what the harness holds.
async fn quiescence(env: &Env, held: &mut [Obj], n_topics: usize, point: &'static str, round: u64) -> Vec<Finding> {
    let mut findings = Vec::new();
    if !flush(env).await {
        findings.push(Finding { signature: "C29:probe-actor-died", what: "flush RPC failed".into() });
        return findings;
    }
    for t in 0..n_topics {
        let (current, open_generations): (Option<u32>, Vec<u32>) = {
            let s = env.shared.lock().unwrap();
            let ix = t + (round as usize) * 2;
            (s.current.get(&ix).cloned(), s.generations.get(&ix).map(|v| v.iter().filter(|g| g.rx.is_some()).map(|g| g.id).collect()).unwrap_or_default())
        };
        let alive: Vec<u32> = held.iter().filter(|o| o.topic == t).map(|o| o.id).collect();
        if alive.is_empty() {
            if !open_generations.is_empty() {
                findings.push(Finding {
                    signature: "C29:overlay-not-left-after-last-drop",
                    what: format!("{point}: no handle or subscription of topic {t} is alive but generation(s) {open_generations:?} are still subscribed"),
                });
            }
            continue;
        }
        if current.is_none() {
            findings.push(Finding {
                signature: "C29:live-handle-not-backed",
                what: format!("{point}: objects {alive:?} of topic {t} are alive but the topic has no subscribed generation (the handle was returned dead)"),
            });
            continue;
        }
        // publish on every live handle must succeed and reach the current generation
        let mut tags: Vec<(u32, Vec<u8>)> = Vec::new();
        for o in held.iter().filter(|o| o.topic == t) {
            if let Kind::Handle(h) = &o.kind {
                let tag = format!("probe-{round}-{}", o.id).into_bytes();
                match h.publish(tag.clone()).await {
                    Ok(()) => tags.push((o.id, tag)),
                    Err(e) => findings.push(Finding {
                        signature: "C29:live-handle-not-backed",
                        what: format!("{point}: publish on live handle {} of topic {t} failed: {e}", o.id),
                    }),
                }
            }
        }
        let mut arrived: HashMap<Vec<u8>, u32> = HashMap::new();
        let inject = format!("inject-{round}-{t}").into_bytes();
        {
            let mut s = env.shared.lock().unwrap();
            let ix = t + (round as usize) * 2;
            for g in s.generations.get_mut(&ix).unwrap() {
                if let Some(rx) = g.rx.as_mut() {
                    while let Ok(m) = rx.try_recv() {
                        arrived.insert(m, g.id);
                    }
                }
                if Some(g.id) == current {
                    let _ = g.from_gossip_tx.send(inject.clone());
                }
            }
        }
        for (obj, tag) in tags {
            if arrived.get(&tag) != current.as_ref() {
                findings.push(Finding {
                    signature: "C29:live-handle-not-backed",
                    what: format!("{point}: message published on live handle {obj} arrived at generation {:?}, the topic's subscribed generation is {current:?}", arrived.get(&tag)),
                });
            }
        }
        for o in held.iter_mut().filter(|o| o.topic == t) {
            if let Kind::Sub(s) = &mut o.kind {
                let mut got = false;
                while let Some(Some(item)) = s.next().now_or_never() {
                    if item.as_ref().ok() == Some(&inject) {
                        got = true;
                    }
                }
                if !got {
                    findings.push(Finding {
                        signature: "C29:live-subscription-not-backed",
                        what: format!("{point}: live subscription {} of topic {t} did not receive a message injected into the subscribed generation {current:?}", o.id),
                    });
                }
            }
        }
    }
    findings
}

async fn round(env: &Env, rep: &mut Report, seed: u64, round_no: u64) {
    let mut rng = Rng::fork(seed, round_no);
    let p = plan(&mut rng);
    let topics: Vec<Topic> = (0..p.n_topics).map(|_| Topic::from(rng.array32())).collect();
    {
        let mut s = env.shared.lock().unwrap();
        for (t, topic) in topics.iter().enumerate() {
            s.topic_ix.insert(*topic, t + (round_no as usize) * 2);
        }
    }
    LOG.lock().unwrap().clear();
    HOOK_CFG.store(p.hook_permille | (p.hook_max_us << 16) | ((rng.next_u64() >> 32) << 32), Ordering::Relaxed);
    HOOK_CALLS.store(0, Ordering::Relaxed);

    // Log entries use the topic index local to the round.
    let base = (round_no as usize) * 2;

    let mut pre: Vec<Obj> = Vec::new();
    for _ in 0..p.pre_handles {
        log(Ev::StreamCall { task: 0, topic: 0 });
        let res = env.gossip.stream(topics[0]).await;
        let id = new_obj_id();
        log(Ev::StreamRet { task: 0, topic: 0, obj: id, ok: res.is_ok() });
        if let Ok(h) = res {
            pre.push(Obj { id, topic: 0, kind: Kind::Handle(h) });
        }
    }
    let barrier = Arc::new(Barrier::new(p.scripts.len()));
    let mut joins = Vec::new();
    for (task, script) in p.scripts.iter().enumerate() {
        let held = if task == 0 { std::mem::take(&mut pre) } else { Vec::new() };
        joins.push(tokio::spawn(run_script(task, env.gossip.clone(), topics.clone(), script.clone(), held, barrier.clone())));
    }
    let mut held: Vec<Obj> = Vec::new();
    for j in joins {
        held.extend(j.await.expect("script task"));
    }
    let mut findings = quiescence(env, &mut held, p.n_topics, "Q1", round_no).await;
    let alive_at_q1 = held.len();

    // Final drops.
    if p.concurrent_final_drop && held.len() >= 2 {
        let mid = held.len() / 2;
        let second: Vec<Obj> = held.split_off(mid);
        let b = Arc::new(Barrier::new(2));
        let mk = |objs: Vec<Obj>, task: usize, b: Arc<Barrier>| async move {
            b.wait().await;
            for o in objs {
                log(Ev::DropCall { task, topic: o.topic, obj: o.id });
                let id = o.id;
                drop(o);
                log(Ev::DropRet { task, obj: id });
            }
        };
        let j1 = tokio::spawn(mk(std::mem::take(&mut held), 100, b.clone()));
        let j2 = tokio::spawn(mk(second, 101, b));
        let _ = j1.await;
        let _ = j2.await;
    } else {
        for o in held.drain(..) {
            log(Ev::DropCall { task: 100, topic: o.topic, obj: o.id });
            let id = o.id;
            drop(o);
            log(Ev::DropRet { task: 100, obj: id });
        }
    }
    findings.extend(quiescence(env, &mut held, p.n_topics, "Q2", round_no).await);

    // Translate the probe's global topic indices to round-local ones and check the log.
    let events: Vec<Ev> = LOG
        .lock()
        .unwrap()
        .iter()
        .map(|e| match e {
            Ev::Subscribe { topic, generation } => Ev::Subscribe { topic: topic - base, generation: *generation },
            Ev::Unsubscribe { topic, closed } => Ev::Unsubscribe { topic: topic - base, closed: *closed },
            other => other.clone(),
        })
        .collect();
    let (log_findings, nontrivial) = check_log(&events, p.n_topics);
    findings.extend(log_findings);

    let shape = log_shape(&events);
    rep.case(if nontrivial { Some(shape) } else { None });
    rep.bump(&format!("rounds_{}", p.pattern), 1);
    rep.bump("events_logged", events.len() as u64);
    rep.bump("subscribe_seen", events.iter().filter(|e| matches!(e, Ev::Subscribe { .. })).count() as u64);
    rep.bump("unsubscribe_seen", events.iter().filter(|e| matches!(e, Ev::Unsubscribe { .. })).count() as u64);
    rep.bump("objects_alive_at_q1", alive_at_q1 as u64);

    let mut seen = HashSet::new();
    let trace = || -> Vec<String> { events.iter().take(120).map(|e| format!("{e:?}")).collect() };
    for f in findings {
        if !seen.insert(f.signature) {
            continue;
        }
        rep.violation(
            f.signature,
            format!("round {round_no} ({}): {}", p.pattern, f.what),
            json!({"seed": seed, "round": round_no, "pattern": p.pattern, "topics": p.n_topics,
                   "hook_pause_permille": p.hook_permille, "hook_pause_max_us": p.hook_max_us,
                   "scripts": p.scripts.iter().map(|s| s.iter().map(op_json).collect::<Vec<_>>()).collect::<Vec<_>>(),
                   "pre_handles": p.pre_handles, "log": trace()}),
        );
    }
    if round_no < 3 {
        let sample: Value = json!({"round": round_no, "pattern": p.pattern, "nontrivial": nontrivial, "log_head": events.iter().take(24).map(|e| format!("{e:?}")).collect::<Vec<_>>()});
        rep.sample(sample);
    }
    // Forget the per-round probe state (keeps the maps small over 10^5 rounds).
    let mut s = env.shared.lock().unwrap();
    for (t, topic) in topics.iter().enumerate() {
        s.topic_ix.remove(topic);
        s.generations.remove(&(base + t));
        s.current.remove(&(base + t));
    }
}

pub fn run(args: &Args) {
    let mut rep = Report::new(
        args,
        "round = 1..2 fresh topics, 2..8 tasks on a multi-thread runtime running seeded scripts of \
         stream() / subscribe() / clone / drop / spin against one real Gossip over a probe actor; \
         patterns: concurrent stream() on a fresh topic, last handle dropped while others call \
         stream(), stream/drop churn, random scripts; the H1 hook spins 0..100 us (one round in ten: up to 1.5 ms) at \
         gossip_stream:after_liveness_check / before_subscribe with p in {0, 0.2, 1}. Non-trivial = a \
         drop that took the harness's live count of a topic to zero overlapped a stream() call on that \
         topic, or two stream() calls on a topic without a subscribed generation overlapped (from the \
         merged log); distinct by the order of (event kind, task) in the merged log.",
        100,
    );
    let workers = args.param_u64("workers", 6) as usize;
    let rt = tokio::runtime::Builder::new_multi_thread().worker_threads(workers).enable_all().build().unwrap();
    let rounds = args.n(5_000, 300_000);
    let budget = Duration::from_secs(if args.tier == vh_common::Tier::Quick { 70 } else { 1500 });
    p2panda_core::verif::install(hook);
    let seed = args.seed;
    let rep = rt.block_on(async move {
        let shared: Shared = Arc::new(Mutex::new(ProbeState::default()));
        let (actor, _join) = Actor::spawn(None, Probe, shared.clone()).await.expect("probe actor spawns");
        let book = AddressBook::builder().spawn().await.expect("address book spawns offline");
        let me = SigningKey::from_bytes(&[7; 32]).verifying_key();
        let gossip = Gossip::verif_from_actor(actor.clone(), me, book, GossipConfig::default());
        let env = Env { gossip, actor, shared };
        let t0 = Instant::now();
        let mut done = 0u64;
        for r in 0..rounds {
            round(&env, &mut rep, seed, r).await;
            done += 1;
            if t0.elapsed() > budget {
                rep.extra("stopped_early_after_rounds", json!(done));
                break;
            }
        }
        rep.extra("rounds", json!(done));
        rep
    });
    p2panda_core::verif::clear();
    let mut rep = rep;
    let (l, s) = (HOOK_LIVENESS.load(Ordering::Relaxed), HOOK_SUBSCRIBE.load(Ordering::Relaxed));
    rep.extra("hook_after_liveness_check_reached", json!(l));
    rep.extra("hook_before_subscribe_reached", json!(s));
    rep.extra("runtime_workers", json!(workers));
    if l == 0 || s == 0 {
        rep.inconclusive("a schedule point of Gossip::stream was never reached (built without --cfg p2panda_p2panda_verif?)");
    }
    rep.finish(args);
}
