//! C30 — confidential discovery: both peers obtain exactly the intersection of their topic sets, no
//! protocol message contains a raw topic, and with restricted sharing the node infos a peer sends
//! are limited to nodes of common topics plus itself.
//!
//! Both roles of the real `PsiHashDiscoveryProtocol` run over futures mpsc channels whose sinks
//! record every message, serialised with postcard (the wire format of p2panda-net) and CBOR.

use std::collections::{BTreeSet, HashMap, HashSet};
use std::sync::{Arc, Mutex};

use futures_channel::mpsc;
use futures_util::{SinkExt, StreamExt, future};
use p2panda_core::cbor::encode_cbor;
use p2panda_core::{SigningKey, Topic, VerifyingKey};
use p2panda_discovery::DiscoveryProtocol;
use p2panda_discovery::psi_hash::{Config, PsiHashDiscoveryProtocol, PsiHashMessage};
use p2panda_discovery::test_utils::TestSubscription;
use p2panda_store::address_book::AddressBookStore;
use p2panda_store::address_book::test_utils::{TestNodeInfo, TestTransportInfo};
use p2panda_store::{SqliteStore, tx_unwrap};
use vh_common::{Args, Report, Rng, hex, json};

type Msg = PsiHashMessage<VerifyingKey, TestNodeInfo>;
type Proto = PsiHashDiscoveryProtocol<SqliteStore, TestSubscription, VerifyingKey, TestNodeInfo>;

struct Recorded {
    from: &'static str,
    variant: &'static str,
    postcard: Vec<u8>,
    cbor: Vec<u8>,
    node_ids: Vec<VerifyingKey>,
}

fn record(from: &'static str, m: &Msg) -> Recorded {
    let (variant, node_ids) = match m {
        PsiHashMessage::AliceSaltHalf { .. } => ("AliceSaltHalf", vec![]),
        PsiHashMessage::BobSaltHalfAndHashedData { .. } => ("BobSaltHalfAndHashedData", vec![]),
        PsiHashMessage::AliceHashedData { .. } => ("AliceHashedData", vec![]),
        PsiHashMessage::Nodes { transport_infos } => ("Nodes", transport_infos.keys().cloned().collect()),
    };
    Recorded {
        from,
        variant,
        postcard: postcard::to_allocvec(m).expect("postcard"),
        cbor: encode_cbor(m).expect("cbor"),
        node_ids,
    }
}

struct Side {
    id: VerifyingKey,
    /// (node id, has transports, topics) as inserted into this side's address book.
    book: Vec<(VerifyingKey, bool, HashSet<Topic>)>,
}

async fn fill(store: &SqliteStore, side: &Side) {
    tx_unwrap!(store, {
        for (i, (id, has_transports, topics)) in side.book.iter().enumerate() {
            let mut info = TestNodeInfo::new(*id);
            if *has_transports {
                info.transports = Some(TestTransportInfo::new(&format!("10.0.{}.{}", i / 250, i % 250)));
            }
            store.insert_node_info(info).await.unwrap();
            <SqliteStore as AddressBookStore<VerifyingKey, TestNodeInfo>>::set_topics(store, *id, topics.clone())
                .await
                .unwrap();
        }
    });
}

async fn clear(store: &SqliteStore, side: &Side) {
    tx_unwrap!(store, {
        for (id, _, _) in &side.book {
            <SqliteStore as AddressBookStore<VerifyingKey, TestNodeInfo>>::remove_node_info(store, id)
                .await
                .unwrap();
        }
    });
}

fn gen_side(rng: &mut Rng, own: &HashSet<Topic>, pool: &[Topic], me: VerifyingKey, peer: VerifyingKey) -> Side {
    let mut book = Vec::new();
    if rng.chance(0.85) {
        book.push((me, rng.chance(0.9), own.clone()));
    }
    if rng.chance(0.5) {
        let t: HashSet<Topic> = (0..rng.below(4)).map(|_| *rng.pick(pool)).collect();
        book.push((peer, rng.chance(0.8), t));
    }
    for _ in 0..rng.below(31) {
        let id = SigningKey::from_bytes(&rng.array32()).verifying_key();
        let t: HashSet<Topic> = if pool.is_empty() { HashSet::new() } else { (0..rng.below(4)).map(|_| *rng.pick(pool)).collect() };
        book.push((id, rng.chance(0.85), t));
    }
    Side { id: me, book }
}

fn scan(bytes: &[u8], index: &HashMap<[u8; 4], Vec<Topic>>) -> Option<Topic> {
    if bytes.len() < 32 {
        return None;
    }
    for i in 0..=bytes.len() - 32 {
        let k: [u8; 4] = bytes[i..i + 4].try_into().unwrap();
        if let Some(ts) = index.get(&k) {
            for t in ts {
                if &bytes[i..i + 32] == t.as_bytes() {
                    return Some(*t);
                }
            }
        }
    }
    None
}

pub fn run(args: &Args) {
    let mut rep = Report::new(
        args,
        "run = two topic sets of 0..40 topics with overlap 0..100 %, two SQLite address books of 0..32 \
         nodes (own entry, peer entry, strangers; with and without transports) with topics drawn \
         from both sets and unrelated ones; restricted sharing on in 2/3 of the runs; alice and bob \
         roles of the real protocol over recording channels. Non-trivial = non-empty intersection, \
         both sides hold topics the other lacks and (restricted) a book holds a node with transports \
         and no common topic; distinct by the two topic sets.",
        100,
    );
    let rt = tokio::runtime::Builder::new_current_thread().enable_all().build().unwrap();
    let (store_a, store_b) = rt.block_on(async { (SqliteStore::temporary().await, SqliteStore::temporary().await) });
    let runs = args.n(500, 50_000);
    for i in 0..runs {
        let mut rng = Rng::fork(args.seed, i);
        // Topic sets.
        let n_common = if rng.chance(0.15) { 0 } else { rng.usize_below(20) };
        let n_a = rng.usize_below(21);
        let n_b = rng.usize_below(21);
        let (n_a, n_b) = match rng.below(10) {
            0 => (0, n_b),
            1 => (n_a, 0),
            _ => (n_a, n_b),
        };
        let common: Vec<Topic> = (0..n_common).map(|_| Topic::from(rng.array32())).collect();
        let only_a: Vec<Topic> = (0..n_a).map(|_| Topic::from(rng.array32())).collect();
        let only_b: Vec<Topic> = (0..n_b).map(|_| Topic::from(rng.array32())).collect();
        let unrelated: Vec<Topic> = (0..5).map(|_| Topic::from(rng.array32())).collect();
        let topics_a: HashSet<Topic> = common.iter().chain(&only_a).cloned().collect();
        let topics_b: HashSet<Topic> = common.iter().chain(&only_b).cloned().collect();
        let expected: HashSet<Topic> = topics_a.intersection(&topics_b).cloned().collect();
        let pool: Vec<Topic> = common.iter().chain(&only_a).chain(&only_b).chain(&unrelated).cloned().collect();
        let restricted = i % 3 != 0;

        let alice_id = SigningKey::from_bytes(&rng.array32()).verifying_key();
        let bob_id = SigningKey::from_bytes(&rng.array32()).verifying_key();
        let side_a = gen_side(&mut rng, &topics_a, &pool, alice_id, bob_id);
        let side_b = gen_side(&mut rng, &topics_b, &pool, bob_id, alice_id);

        let log: Arc<Mutex<Vec<Recorded>>> = Arc::new(Mutex::new(Vec::new()));
        let outcome = rt.block_on(async {
            fill(&store_a, &side_a).await;
            fill(&store_b, &side_b).await;
            let config = Config { share_nodes_with_common_topics: restricted };
            let alice: Proto = PsiHashDiscoveryProtocol::with_config(store_a.clone(), TestSubscription { topics: topics_a.clone() }, alice_id, bob_id, config.clone());
            let bob: Proto = PsiHashDiscoveryProtocol::with_config(store_b.clone(), TestSubscription { topics: topics_b.clone() }, bob_id, alice_id, config);
            let (alice_tx, alice_rx) = mpsc::channel::<Msg>(16);
            let (bob_tx, bob_rx) = mpsc::channel::<Msg>(16);
            let la = log.clone();
            let mut alice_tx = alice_tx.with(move |m: Msg| {
                la.lock().unwrap().push(record("alice", &m));
                future::ready(Ok::<_, mpsc::SendError>(m))
            });
            let lb = log.clone();
            let mut bob_tx = bob_tx.with(move |m: Msg| {
                lb.lock().unwrap().push(record("bob", &m));
                future::ready(Ok::<_, mpsc::SendError>(m))
            });
            let mut alice_in = bob_rx.map(Ok::<_, ()>);
            let mut bob_in = alice_rx.map(Ok::<_, ()>);
            let (ra, rb) = tokio::join!(alice.alice(&mut alice_tx, &mut alice_in), bob.bob(&mut bob_tx, &mut bob_in));
            clear(&store_a, &side_a).await;
            clear(&store_b, &side_b).await;
            (ra.map_err(|e| e.to_string()), rb.map_err(|e| e.to_string()))
        });
        let log = log.lock().unwrap();

        let must_not_share = |s: &Side| s.book.iter().any(|(id, tr, t)| *tr && *id != s.id && t.is_disjoint(&expected));
        let nontrivial = !expected.is_empty()
            && !only_a.is_empty()
            && !only_b.is_empty()
            && (!restricted || must_not_share(&side_a) || must_not_share(&side_b));
        let key: (BTreeSet<[u8; 32]>, BTreeSet<[u8; 32]>, bool) = (
            topics_a.iter().map(|t| *t.as_bytes()).collect(),
            topics_b.iter().map(|t| *t.as_bytes()).collect(),
            restricted,
        );
        rep.case(if nontrivial { Some(key) } else { None });
        let witness = json!({"seed": args.seed, "case": i, "restricted": restricted,
            "topics_alice": topics_a.len(), "topics_bob": topics_b.len(), "common": expected.len(),
            "book_alice": side_a.book.len(), "book_bob": side_b.book.len(),
            "messages": log.iter().map(|r| format!("{}:{}", r.from, r.variant)).collect::<Vec<_>>()});

        let (ra, rb) = match outcome {
            (Ok(a), Ok(b)) => (a, b),
            (a, b) => {
                rep.violation(
                    "C30:protocol-failed-between-honest-peers",
                    format!("alice: {:?}, bob: {:?}", a.as_ref().err(), b.as_ref().err()),
                    witness,
                );
                continue;
            }
        };
        if ra.topics != expected || rb.topics != expected {
            let which = if ra.topics != expected { "alice" } else { "bob" };
            rep.violation(
                "C30:result-not-intersection",
                format!("{which} obtained {} topics, the intersection has {} (alice {}, bob {})", if which == "alice" { ra.topics.len() } else { rb.topics.len() }, expected.len(), ra.topics.len(), rb.topics.len()),
                witness.clone(),
            );
        }
        // Raw topics (of either side, and every topic any book mentions) in serialised messages.
        let mut index: HashMap<[u8; 4], Vec<Topic>> = HashMap::new();
        for t in &pool {
            index.entry(t.as_bytes()[..4].try_into().unwrap()).or_default().push(*t);
        }
        for r in log.iter() {
            rep.bump("messages_scanned", 1);
            rep.bump("bytes_scanned", (r.postcard.len() + r.cbor.len()) as u64);
            for (enc, bytes) in [("postcard", &r.postcard), ("cbor", &r.cbor)] {
                if let Some(t) = scan(bytes, &index) {
                    let mut w = witness.clone();
                    w["raw_topic"] = json!(hex(t.as_bytes()));
                    w["message"] = json!(format!("{}:{}", r.from, r.variant));
                    w["encoding"] = json!(enc);
                    rep.violation(
                        &format!("C30:raw-topic-in-message:{}", r.variant),
                        format!("{} message {} ({enc}) contains a raw topic", r.from, r.variant),
                        w,
                    );
                    break;
                }
            }
        }
        // Restricted sharing.
        for r in log.iter().filter(|r| r.variant == "Nodes") {
            let side = if r.from == "alice" { &side_a } else { &side_b };
            rep.bump("node_infos_sent", r.node_ids.len() as u64);
            if !restricted {
                continue;
            }
            for id in &r.node_ids {
                let allowed = *id == side.id
                    || side.book.iter().any(|(n, _, t)| n == id && !t.is_disjoint(&expected));
                if !allowed {
                    let mut w = witness.clone();
                    w["leaked_node"] = json!(id.to_hex());
                    w["sender"] = json!(r.from);
                    w["leaked_node_topics_common"] = json!(0);
                    rep.violation(
                        "C30:restricted-mode-shared-node-without-common-topic",
                        format!("{} sent the info of a node that has no common topic and is not itself", r.from),
                        w,
                    );
                    break;
                }
            }
        }
        if log.len() != 5 {
            rep.bump("runs_with_unexpected_message_count", 1);
        }
        if i < 3 {
            rep.sample(witness);
        }
    }
    rep.finish(args);
}
