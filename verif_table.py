"""Table of checks: which harness stages decide which property, at which level.

Used by ./check (what to build and run) and ./gen_manifest.py (MANIFEST.json).
A stage: {"crate": harness package/binary, "sub": sub-command (default = property id),
"mode": native|miri|valgrind, "scale": case-count factor, "args": [...], "timeout": seconds}.
"""


def st(crate, sub=None, mode="native", **kw):
    d = {"crate": crate, "mode": mode}
    if sub:
        d["sub"] = sub
    d.update(kw)
    return d


CHECKS = {}


def add(pid, level, technique, text, note, quick, thorough, design_ref, assumptions=None):
    CHECKS[pid] = {
        "level": level,
        "technique": technique,
        "text": text,
        "note": note,
        "stages": {"quick": quick, "thorough": thorough},
        "design_ref": design_ref,
        "assumptions": assumptions or [],
    }


MIRI_NOTE = ("Miri stage runs the same oracle on a reduced workload under the UB/overflow/leak "
             "interpreter; a Miri tool failure is inconclusive, never a verdict.")

add("C06", "exploration",
    "runtime oracle over executions of logs::compare / Cursor::compare: independent diff "
    "definition + max-merge law, exhaustive small domain + seeded random maps; Miri underneath",
    "Every pair of height maps over 2 authors x 2 logs x {absent,0,1,2} (65 536 pairs, both call "
    "directions) and hundreds of thousands of random/edited large maps are pushed through the real "
    "function and compared with a definition written from the statement. Exploration: it speaks "
    "for the pairs it saw; the small domain is complete.",
    "Trusts the 30-line reference definition in vh-core/src/c06.rs. " + MIRI_NOTE,
    quick=[st("vh-core")],
    thorough=[st("vh-core"), st("vh-core", mode="miri", timeout=3 * 3600)],
    design_ref="DESIGN.md §1 C06",
    assumptions=["An author key with an empty inner map is not an (author, log) pair"])


# Per-harness fragments: /verif/table.d/*.py, each calling add(...) / st(...).
import glob as _glob
import os as _os
for _f in sorted(_glob.glob(_os.path.join(_os.path.dirname(_os.path.abspath(__file__)), "table.d", "*.py"))):
    exec(compile(open(_f).read(), _f, "exec"))
